/- Tree (de)serialiser of the line protocol — same grammar as harness/treeio.h. -/
import Wbxml.Model.Tree
import Wbxml.Gen.Tables
namespace Driver
open Wbxml Wbxml.Model

def hxs (b : Bytes) : String := if b.isEmpty then "-" else hexOfBytes b
def unhx (s : String) : Option Bytes := if s == "-" then some [] else bytesOfHex s

def fmtTName : Name → String
  | .token r => s!"t.{r.page}.{r.token}.{hxs r.name}"
  | .literal s => s!"l.{hxs s}"

def fmtAName : AName → String
  | .token r => s!"t.{r.page}.{r.token}.{hxs r.name}." ++ (match r.value with | some v => hxs v | none => "~")
  | .literal s => s!"l.{hxs s}"

mutual
partial def fmtNode : Node → String
  | .elt n attrs kids =>
    "E" ++ fmtTName n ++ String.join (attrs.map fun a => ";A" ++ fmtAName a.name ++ "=" ++ hxs a.value) ++
      "(" ++ String.join (kids.map fmtNode) ++ ")"
  | .text s => "T" ++ hxs s ++ "."
  | .cdata kids => "C(" ++ String.join (kids.map fmtNode) ++ ")"
  | .tree lang cs root => "R" ++ fmtTreeParts lang cs root ++ "$"
partial def fmtTreeParts (lang : Option Lang) (cs : Nat) (root : Option Node) : String :=
  s!"{(lang.map (·.id)).getD 0}:{cs}:" ++ (match root with | some r => fmtNode r | none => "-")
end

def fmtTree (t : Tree) : String := fmtTreeParts t.lang t.origCharset t.root

/-! Parsing: a cursor over `List Char`. -/
abbrev Cur := List Char

def takeUntil (stops : List Char) : Cur → String × Cur
  | [] => ("", [])
  | c :: r => if stops.contains c then ("", c :: r) else
    let (s, r') := takeUntil stops r
    (String.singleton c ++ s, r')

def parseTName (lang : Option Lang) (s : String) : Option Name :=
  match s.splitOn "." with
  | ["t", p, t, n] => do
    let nm ← unhx n
    let l ← lang
    let tags ← l.tags
    let r ← tags.find? (fun r => r.page == p.toNat! && r.token == t.toNat! && r.name == nm)
    pure (.token r)
  | ["l", n] => (unhx n).map .literal
  | _ => none

def parseAName (lang : Option Lang) (s : String) : Option AName :=
  match s.splitOn "." with
  | ["t", p, t, n, v] => do
    let nm ← unhx n
    let vv ← (if v == "~" then some none else (unhx v).map some)
    let l ← lang
    let attrs ← l.attrs
    let r ← attrs.find? (fun r => r.page == p.toNat! && r.token == t.toNat! && r.name == nm && r.value == vv)
    pure (.token r)
  | ["l", n] => (unhx n).map .literal
  | _ => none

mutual
partial def parseAttrs (lang : Option Lang) (acc : List Attr) : Cur → Option (List Attr × Cur)
  | ';' :: 'A' :: r =>
    let (an, r) := takeUntil ['='] r
    match r with
    | '=' :: r =>
      let (hv, r) := takeUntil [';', '('] r
      (match parseAName lang an, unhx hv with
       | some n, some v => parseAttrs lang (acc ++ [{ name := n, value := v }]) r
       | _, _ => none)
    | _ => none
  | r => some (acc, r)

partial def parseKids (lang : Option Lang) (acc : List Node) : Cur → Option (List Node × Cur)
  | ')' :: r => some (acc, r)
  | [] => none
  | r => match parseNodeC lang r with
    | some (n, r') => parseKids lang (acc ++ [n]) r'
    | none => none

partial def parseNodeC (lang : Option Lang) : Cur → Option (Node × Cur)
  | 'E' :: r =>
    let (nm, r) := takeUntil [';', '('] r
    match parseTName lang nm, parseAttrs lang [] r with
    | some n, some (attrs, '(' :: r) =>
      (match parseKids lang [] r with
       | some (kids, r) => some (.elt n attrs kids, r)
       | none => none)
    | _, _ => none
  | 'T' :: r =>
    let (h, r) := takeUntil ['.'] r
    match unhx h, r with
    | some b, '.' :: r => some (.text b, r)
    | _, _ => none
  | 'C' :: '(' :: r =>
    (match parseKids lang [] r with
     | some (kids, r) => some (.cdata kids, r)
     | none => none)
  | 'R' :: r =>
    (match parseTreeC r with
     | some (t, '$' :: r) => some (.tree t.lang t.origCharset t.root, r)
     | _ => none)
  | _ => none

partial def parseTreeC (r : Cur) : Option (Tree × Cur) :=
  let (l, r) := takeUntil [':'] r
  match r with
  | ':' :: r =>
    let (cs, r) := takeUntil [':'] r
    (match r with
     | ':' :: r =>
       let lang := Gen.main.find? (fun x => x.id == l.toNat!)
       (match r with
        | '-' :: r => some ({ lang := lang, origCharset := cs.toNat!, root := none }, r)
        | _ => match parseNodeC lang r with
          | some (n, r) => some ({ lang := lang, origCharset := cs.toNat!, root := some n }, r)
          | none => none)
     | _ => none)
  | _ => none
end

def readTree (s : String) : Option Tree :=
  match parseTreeC s.toList with
  | some (t, []) => some t
  | _ => none

end Driver
