/- Line-protocol driver for the Obj component (C15): one request line in, one response line out. -/
import Driver.Obj
open Driver

def dispatchObj (line : String) : String :=
  let toks := (line.trimAscii.toString.splitOn " ").filter (· ≠ "")
  match toks with
  | [] => ""
  | "OBJ" :: rest => obj rest
  | _ => "BADVERB"

partial def loop (h : IO.FS.Stream) (out : IO.FS.Stream) : IO Unit := do
  let line ← h.getLine
  if line.isEmpty then return ()
  out.putStrLn (dispatchObj line)
  loop h out

def main : IO Unit := do
  let out ← IO.getStdout
  loop (← IO.getStdin) out
  out.flush
