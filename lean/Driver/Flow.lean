/- FLOW verb: one line = one whole history on one encoder object in flow mode (C17).

   Request :  FLOW <lang> <W|X> <opts> <op> ... [ | <ret>:<hexdelta> ... ]
   Response:  H=<hex> | <ret>:<hex> ... | <ret>:<hexdelta> ... | <state before each op>

   The part behind `|` of the request is the value of the model's per-item encoding parameter for
   this history, as measured on the real library by harness/flow.c (what a FRESH encoder that was
   fed the surviving operations only appends for the operation).  For WBXML output it defines
   `Enc.item` (keyed by the MODEL's encoding state and the item; two different values for one key
   mean the parameter is not a function of state and item: `NONFUNCTIONAL`); the new code pages are
   read off the bytes with the model's reader (`pagesAfter`).  For XML output the parameter is not
   used: `xmlEnc` is the model. -/
import Wbxml.Model.Flow
import Wbxml.Model.Tables
import Driver.TreeIO
import Driver.Parse
namespace Driver
open Wbxml Wbxml.Model Wbxml.Model.Flow

structure FlowCfg where
  lang : Nat := 0
  xml : Bool := false
  gen : Nat := 0
  delta : Nat := 1
  ign : Bool := false
  rem : Bool := false
  txt : Bool := false
  anon : Bool := false
  ver : Nat := 3

def parseFlowOpts (c : FlowCfg) (s : String) : FlowCfg :=
  (s.splitOn ",").foldl (fun c o =>
    let v := (o.drop 1).toString.toNat!
    match o.toList.head? with
    | some 'g' => { c with gen := v }
    | some 'd' => { c with delta := v }
    | some 'i' => { c with ign := v != 0 }
    | some 'r' => { c with rem := v != 0 }
    | some 't' => { c with txt := v != 0 }
    | some 'a' => { c with anon := v != 0 }
    | some 'v' => { c with ver := v }
    | _ => c) c

def nodeOfText (lang : Nat) (t : String) : Option Node :=
  match readTree s!"{lang}:0:{t}" with
  | some tr => tr.root
  | none => none

def parseFlowOp (lang : Nat) (s : String) : Option Op :=
  match s.toList with
  | ['D'] => some .deleteLast
  | ['G'] => some .getOutput
  | 'N' :: r => (nodeOfText lang (String.ofList r)).map .encodeNode
  | 'M' :: r => (nodeOfText lang (String.ofList r)).map .encodeNodeNoEnd
  | 'S' :: h :: r => (nodeOfText lang (String.ofList r)).map (.encodeEltStart · (h == '1'))
  | 'F' :: h :: r => (nodeOfText lang (String.ofList r)).map (.encodeEltEnd · (h == '1'))
  | _ => none

def itemKey : Item → String
  | .node n e => (if e then "N" else "M") ++ fmtNode n
  | .start n h => (if h then "S1" else "S0") ++ fmtNode n
  | .fin n h => (if h then "F1" else "F0") ++ fmtNode n

def fmtWSt (w : WSt) : String :=
  s!"{w.pages.tag}.{w.pages.attr}." ++ (match w.curTag with | some r => s!"{r.page}.{r.token}" | none => "~")

def fmtXFl (x : XFl) : String :=
  s!"{x.indent.toNat}.{if x.inContent then 1 else 0}." ++ (match x.curTag with | some r => s!"{r.page}.{r.token}" | none => "~")

def fmtRet : Option Err → String
  | none => "0"
  | some e => errCode e

/-- A measured value of the parameter: return code and appended bytes. -/
structure Meas where
  ret : Nat
  bytes : Bytes

def parseMeas (s : String) : Option Meas :=
  match s.splitOn ":" with
  | [r, h] => (unhx h).map fun b => { ret := r.toNat!, bytes := b }
  | _ => none

abbrev WTable := List ((WSt × String) × Except Err (Bytes × WSt))

/-- `current_tag` after an item that was encoded: `parse_node` clears it, `wbxml_encode_tag` sets it
    (token of the node, or the table row found for a literal name, current page first). -/
def curTagAfter (lang : Option Lang) (w : WSt) : Item → Option TagRow
  | .node _ _ => none
  | .start _ false => none      -- an element without content is complete
  | .start n true =>
    (match n with
     | .elt (.token r) _ _ => some r
     | .elt (.literal s) _ _ =>
       (match lang.bind (·.tags) with
        | some tags => encTag tags (some w.pages.tag) s
        | none => none)
     | _ => none)
  | .fin _ _ => w.curTag

def wEnc (hdr : Bytes) (tbl : WTable) : Enc WSt :=
  { header := hdr
    init := {}
    item := fun w it =>
      match tbl.find? (fun e => e.1.1 == w && e.1.2 == itemKey it) with
      | some e => e.2
      | none => .error (.crash "NOPARAM") }

def sameEntry : Except Err (Bytes × WSt) → Except Err (Bytes × WSt) → Bool
  | .ok a, .ok b => a.1 == b.1 && a.2 == b.2
  | .error _, .error _ => true
  | _, _ => false

/-- First pass: replay the history with the model's own `step`, entering each measured value under
    the model's state at that point. Returns the table or a complaint. -/
def buildTable (lang : Option Lang) (hdr : Bytes) : List Op → List (Option Meas) → FState WSt → WTable → Except String WTable
  | [], _, _, tbl => .ok tbl
  | op :: ops, ms, s, tbl =>
    let (m, ms') := match ms with | m :: r => (m, r) | [] => (none, [])
    match op.item? with
    | none => buildTable lang hdr ops ms' (step (wEnc hdr tbl) s op).1 tbl
    | some it =>
      match m with
      | none => .error "NOPARAM"
      | some m =>
        let w := s.st
        let entry : Except String (Except Err (Bytes × WSt)) :=
          if m.ret != 0 then .ok (.error (.code m.ret))
          else match pagesAfter w.pages m.bytes with
            | none => .error s!"UNREADABLE({hx m.bytes})"
            | some p' => .ok (.ok (m.bytes, { pages := p', curTag := curTagAfter lang w it }))
        match entry with
        | .error e => .error e
        | .ok en =>
          let key := (w, itemKey it)
          match tbl.find? (fun e => e.1.1 == key.1 && e.1.2 == key.2) with
          | some old =>
            if sameEntry old.2 en then buildTable lang hdr ops ms' (step (wEnc hdr tbl) s op).1 tbl
            else .error s!"NONFUNCTIONAL({fmtWSt w} {key.2})"
          | none =>
            let tbl := (key, en) :: tbl
            buildTable lang hdr ops ms' (step (wEnc hdr tbl) s op).1 tbl

def fmtTrace (tr : List (Option Err × Bytes)) : String :=
  " ".intercalate (tr.map fun (r, o) => s!"{fmtRet r}:{hx o}")

/-- Per operation: the encoding state before it and what the operation appended (model side). -/
def deltas {σ : Type} (e : Enc σ) (fmt : σ → String) : FState σ → List Op → List (String × String)
  | _, [] => []
  | s, op :: ops =>
    let r := step e s op
    let d := match op.item? with
      | none => "-"
      | some it =>
        let s0 := if it.isNode then s else s
        (match e.item s0.st it with
         | .ok (b, _) => s!"0:{hx b}"
         | .error er => s!"{errCode er}:-")
    (fmt s.st, d) :: deltas e fmt r.1 ops

def flowVerb (args : List String) : String :=
  match args with
  | lang :: ty :: opts :: rest =>
    let cfg := parseFlowOpts { lang := lang.toNat!, xml := ty == "X" } opts
    let (opToks, measToks) := (rest.takeWhile (· != "|"), (rest.dropWhile (· != "|")).drop 1)
    let l := Gen.main.find? (fun x => x.id == cfg.lang)
    match l, opToks.mapM (parseFlowOp cfg.lang) with
    | none, _ => "BADLANG"
    | _, none => "BADOP"
    | some lg, some ops =>
      if cfg.xml then
        let c : XCfg := { lang := lg, gen := cfg.gen, delta := UInt8.ofNat cfg.delta,
                          ignoreEmpty := cfg.ign, removeBlanks := cfg.rem }
        let e := xmlEnc c
        let tr := trace e (FState.init e) ops
        let ds := deltas e fmtXFl (FState.init e) ops
        s!"H={hx e.header} | {fmtTrace tr} | {" ".intercalate (ds.map (·.2))} | {" ".intercalate (ds.map (·.1))}"
      else
        let hdr := wbxmlHeader lg cfg.ver cfg.txt cfg.anon
        let ms := measToks.map parseMeas
        match buildTable (some lg) hdr ops ms (FState.init (wEnc hdr [])) [] with
        | .error e => e
        | .ok tbl =>
          let e := wEnc hdr tbl
          let tr := trace e (FState.init e) ops
          let ds := deltas e fmtWSt (FState.init e) ops
          s!"H={hx hdr} | {fmtTrace tr} | {" ".intercalate (ds.map (·.2))} | {" ".intercalate (ds.map (·.1))}"
  | _ => "BADARG"

end Driver
