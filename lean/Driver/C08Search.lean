/- Item-by-item evaluation of the C08 predicates over the regenerated tables: prints one
   `FAIL kind=… lang=… …` line per failing row. Used when a proof obligation of Props/C08 no
   longer checks, and on every run to list known findings. Depends only on Model + Gen. -/
import Wbxml.Model.Tables
import Wbxml.Gen.Tables
open Wbxml Wbxml.Model

def report (kind : String) (lang : Nat) (name : Bytes) (page token : Nat) : IO Unit :=
  IO.println s!"FAIL kind={kind} lang={lang} name={hexOfBytes name} page={page} token={token}"

def main : IO Unit := do
  let mut rows := 0
  for l in Gen.main do
    match l.tags with
    | some t =>
      for r in t do
        rows := rows + 1
        if !tagRowRange r then report "tagRange" l.id r.name r.page r.token
        if !tagDecEnc t r then report "tagDecEnc" l.id r.name r.page r.token
        if !tagEncDec t r then report "tagEncDec" l.id r.name r.page r.token
    | none => IO.println s!"FAIL kind=noTagTable lang={l.id} name=- page=0 token=0"
    match l.attrs with
    | some t =>
      for r in t do
        rows := rows + 1
        if !attrRowRange r then report "attrRange" l.id r.name r.page r.token
        if !attrDecEnc t r then report "attrDecEnc" l.id r.name r.page r.token
    | none => pure ()
    match l.values with
    | some t =>
      for r in t do
        rows := rows + 1
        if !valRowRange r then report "valRange" l.id r.name r.page r.token
        if !valDec t r then report "valDec" l.id r.name r.page r.token
    | none => pure ()
    match l.exts with
    | some t =>
      if t.length ≥ 256 then IO.println s!"FAIL kind=extTooLong lang={l.id} name=- page=0 token={t.length}"
      for r in t do
        rows := rows + 1
        if !extDecEnc t r then report "extDecEnc" l.id r.name 0 r.token
        if !extEncDec t r then report "extEncDec" l.id r.name 0 r.token
    | none => pure ()
    match l.ns with
    | some t =>
      for r in t do
        rows := rows + 1
        if !nsRowOK t r then report "nsRow" l.id r.ns r.page 0
    | none => pure ()
  IO.println s!"ROWS {rows} LANGS {Gen.main.length}"
