/- Line-protocol driver for the Tool component (stub; see tools/AGENT_GUIDE.md). -/
partial def loop (h : IO.FS.Stream) (out : IO.FS.Stream) : IO Unit := do
  let line ← h.getLine
  if line.isEmpty then return ()
  out.putStrLn "BADVERB"
  loop h out

def main : IO Unit := do
  let out ← IO.getStdout
  loop (← IO.getStdin) out
  out.flush
