/- Line-protocol driver for the Tool component (C20): one request line in, one response line out. -/
import Driver.Tool

def dispatch (line : String) : String :=
  let toks := (line.trimAscii.toString.splitOn " ").filter (· ≠ "")
  match toks with
  | [] => ""
  | "TOOL" :: rest => Driver.Tool.handle rest
  | _ => "BADVERB"

partial def loop (h : IO.FS.Stream) (out : IO.FS.Stream) : IO Unit := do
  let line ← h.getLine
  if line.isEmpty then return ()
  out.putStrLn (dispatch line)
  loop h out

def main : IO Unit := do
  let out ← IO.getStdout
  loop (← IO.getStdin) out
  out.flush
