/- Line-protocol handlers for C12 (TYPED verbs); mirrors harness/typed.c. -/
import Wbxml.Model.Typed.WvDate
import Wbxml.Lemmas.TypedBinary
import Wbxml.Model.Tables
import Wbxml.Gen.Tables
namespace Driver.Typed
open Wbxml Wbxml.Model Wbxml.Model.Typed

def hexArg (s : String) : Option Bytes := if s == "-" then some [] else bytesOfHex s

def hexOut (bs : Bytes) : String := if bs.isEmpty then "-" else hexOfBytes bs

def fmt : Except Err Bytes → String
  | .ok bs => "OK " ++ hexOut bs
  | .error (.code 80) => "ERR:80"
  | .error (.code _) => "ERR"
  | .error (.ub _) => "UB"
  | .error _ => "ERR"

def fmtOpt : Except Err (Option Bytes) → String
  | .ok none => "NOTENC"
  | .ok (some bs) => fmt (.ok bs)
  | .error e => fmt (.error e)

/-! ### sweep (same generator and hash as harness/typed.c) -/

def lcg (s : UInt64) : UInt64 := s * 6364136223846793005 + 1442695040888963407

def fnv (h : UInt64) (bs : Bytes) : UInt64 := bs.foldl (fun h b => (h ^^^ b.toUInt64) * 1099511628211) h

def sweepWvi (seed : UInt64) (count : Nat) : String := Id.run do
  let mut s := seed
  let mut h : UInt64 := 1469598103934665603
  for i in [0:count] do
    s := lcg s
    let r := s
    let mut oct : Bytes := []
    if i % 8 == 7 then
      s := lcg s
      let r2 := s
      let len := ((r >>> 33) % 9).toNat
      oct := (List.range len).map fun j => (r2 >>> (8 * j).toUInt64).toUInt8
    else
      let n0 : UInt32 := (r >>> 32).toUInt32
      let sel := ((r >>> 29) &&& 7).toNat
      let n : UInt32 := if sel == 0 then n0 &&& 0xff else if sel == 1 then n0 &&& 0xffff else if sel == 2 then n0 &&& 0xffffff else n0
      let t : Bytes := [(n >>> 24).toUInt8, (n >>> 16).toUInt8, (n >>> 8).toUInt8, n.toUInt8]
      oct := t.dropWhile (· == 0)
    match decodeWvInt oct with
    | .ok o => h := fnv (fnv h [0x4F]) o
    | .error (.code 80) => h := fnv h [0x56]
    | .error _ => h := fnv h [0x45]
  let hx := hexOfBytes ((List.range 8).map fun j => (h >>> (8 * (7 - j)).toUInt64).toUInt8)
  return s!"OK {hx}"

/-! ### end to end: what the minimal documents of harness/typed.c yield -/

def langById (id : Nat) : Option Lang := Gen.main.find? (fun l => l.id == id)

/-- multi-byte length at the head of an opaque item -/
def mbDec : Nat → Nat → Bytes → Option (Nat × Bytes)
  | 0, _, _ => none
  | _ + 1, _, [] => none
  | k + 1, acc, b :: bs =>
    let v := acc * 128 + (b.toNat % 128)
    if b.toNat ≥ 128 then mbDec k v bs else some (v, bs)

/-- one content item: `OPAQUE len bytes` or `STR_I bytes NUL` (exactly, nothing after it) -/
def parseItem (item : Bytes) : Option WvItem :=
  match item with
  | 0xC3 :: rest =>
    match mbDec 5 0 rest with
    | some (n, p) => if p.length = n then some (.opaque p) else none
    | none => none
  | 0x03 :: rest =>
    match rest.reverse with
    | 0 :: r => if r.contains 0 then none else some (.inline r.reverse)
    | _ => none
  | _ => none

def isWv (l : Nat) : Bool := l == 2301 || l == 2302
def isSyncml (l : Nat) : Bool := l == 2001 || l == 2101 || l == 2201

/-- parser side: `parse_content` + `decode_opaque_content` for an element with the given token -/
def decodeContent (lang page token : Nat) : WvItem → Except Err Bytes
  | .inline s => .ok s
  | .opaque p =>
    if isWv lang then
      match wvDecKind page token with
      | .integer => decodeWvInt p
      | .dateTime => decodeWvDate p
      | .other => .ok p
    else if lang == 1801 && page == 0 && token == 0x0C then opaqueToBase64 p
    else if isSyncml lang && page == 1 && token == 0x10 then opaqueToBase64 p
    else .ok p

/-- parser side: `parse_attr_value` + `decode_opaque_attr_value`, then the SI/EMN %Datetime step of `parse_attribute` -/
def decodeAttr (lang page token : Nat) (it : WvItem) : Except Err Bytes := do
  let v ← match it with
    | .inline s => pure s
    | .opaque p => if lang == 1901 then opaqueToBase64 p else pure p
  if v ≠ [] && ((lang == 1301 && page == 0 && (token == 0x0a || token == 0x10)) || (lang == 1701 && page == 0 && token == 0x05))
  then decodeDatetime v else pure v

/-- XML encoder side for element text: base64 for binary-flagged tags -/
def xmlText (opts : Nat) (t : Bytes) : Except Err Bytes :=
  if t = [] then .ok [] else if opts % 2 == 1 then opaqueToBase64 t else .ok t

def stripBlanks (s : Bytes) : Bytes := ((s.dropWhile isSpace).reverse.dropWhile isSpace).reverse

/-- WBXML encoder side for the text of an element (`strip` = blanks removed first, the converter default) -/
def encodeContent (lang : Nat) (row : TagRow) (strip : Bool) (text : Bytes) : Except Err Bytes :=
  if row.opts % 2 == 1 then
    -- binary element: the XML tree builder base64-decodes (white space removed); the encoder emits the bytes as opaque
    if text = [] then .ok [] else binaryElemItem text
  else
    let t := if strip then stripBlanks text else text
    if strip && text.all isSpace then .ok []
    else if cstr t = [] then .ok []
    else if isWv lang then
      match wvEncKind row.page row.token with
      | .integer => (encodeWvInt (cstr t)).map fun o => match o with | some it => it | none => strItem (cstr t)
      | .dateTime => (encodeWvDate (cstr t)).map WvItem.bytes
      | .other => .ok (strItem (cstr t))
    else .ok (strItem (cstr t))

/-- the same for binary content that never went through XML (tree built from WBXML): raw bytes → opaque -/
def encodeContentRaw (lang : Nat) (row : TagRow) (text : Bytes) : Except Err Bytes :=
  if row.opts % 2 == 1 then (if text = [] then .ok [] else .ok (opaqueItem text))
  else if lang == 1801 && row.page == 0 && row.token == 0x0C then
    (if cstr text = [] then .ok [] else .ok (base64ToOpaqueStrip (cstr text)))
  else encodeContent lang row false text

def encodeAttr (lang : Nat) (arow : AttrRow) (icon : Bool) (text : Bytes) : Except Err Bytes :=
  if (lang == 1301 && arow.page == 0 && (arow.token == 0x0a || arow.token == 0x10)) ||
     (lang == 1701 && arow.page == 0 && arow.token == 0x05) then guarded encodeDatetime text
  else if lang == 1901 && icon && arow.page == 0 && arow.token == 0x11 then
    (if cstr text = [] then .ok [] else .ok (base64ToOpaqueStrip (cstr text)))
  else if cstr text = [] then .ok [] else .ok (strItem (cstr text))

structure Shape where
  lang : Nat
  row : TagRow
  attr : Option AttrRow
  icon : Bool

def getShape (args : List String) : Option (Shape × List String) := do
  match args with
  | lang :: mode :: tag :: rest =>
    let l ← langById lang.toNat!
    let tags ← l.tags
    let row ← encTag tags none tag.toUTF8.toList
    if mode == "E" then pure (⟨l.id, row, none, false⟩, rest)
    else match rest with
      | an :: rest' =>
        let attrs ← l.attrs
        let ar ← attrs.find? (fun a => a.name == an.toUTF8.toList && a.value.isNone)
        if mode == "A" || mode == "I" then pure (⟨l.id, row, some ar, mode == "I"⟩, rest') else none
      | _ => none
  | _ => none

def w2xValue (sh : Shape) (item : Bytes) : Except Err Bytes :=
  if item = [] then .ok [] else
  match parseItem item with
  | none => .error (.crash "driver: item form not modelled")
  | some it =>
    match sh.attr with
    | some ar => decodeAttr sh.lang ar.page ar.token it
    | none => do
      let t ← decodeContent sh.lang sh.row.page sh.row.token it
      xmlText sh.row.opts t

def x2wItem (sh : Shape) (text : Bytes) : Except Err Bytes :=
  match sh.attr with
  | some ar => encodeAttr sh.lang ar sh.icon text
  | none => encodeContent sh.lang sh.row true text

def w2wItem (sh : Shape) (item : Bytes) : Except Err Bytes :=
  if item = [] then .ok [] else
  match parseItem item with
  | none => .error (.crash "driver: item form not modelled")
  | some it =>
    match sh.attr with
    | some ar => do
      let v ← decodeAttr sh.lang ar.page ar.token it
      encodeAttr sh.lang ar false v
    | none => do
      let t ← decodeContent sh.lang sh.row.page sh.row.token it
      encodeContentRaw sh.lang sh.row t

def e2e (verb : String) (args : List String) : String :=
  match getShape args with
  | some (sh, [hx]) =>
    match hexArg hx with
    | none => "BADARG"
    | some payload =>
      if verb == "W2X" then fmt (w2xValue sh payload)
      else if verb == "X2W" then fmt (x2wItem sh payload)
      else if verb == "W2W" then fmt (w2wItem sh payload)
      else fmt (do let it ← x2wItem sh payload; w2xValue { sh with icon := false } it)
  | _ => "BADARG"

def typed (args : List String) : String :=
  match args with
  | "W2X" :: rest => e2e "W2X" rest
  | "X2W" :: rest => e2e "X2W" rest
  | "W2W" :: rest => e2e "W2W" rest
  | "RT" :: rest => e2e "RT" rest
  | [verb, hx] =>
    match hexArg hx with
    | none => "BADARG"
    | some p =>
      if verb == "DT_DEC" then fmt (decodeDatetime p)
      else if verb == "WVI_DEC" then fmt (decodeWvInt p)
      else if verb == "WVD_DEC" then fmt (decodeWvDate p)
      else if verb == "B64_OPQ" then fmt (opaqueToBase64 p)
      else if verb == "DT_ENC" then fmt (guarded encodeDatetime p)
      else if verb == "WVI_ENC" then (if cstr p = [] then "OK -" else fmtOpt (encodeWvInt (cstr p)))
      else if verb == "WVD_ENC" then fmt (guarded (fun s => (encodeWvDate s).map WvItem.bytes) p)
      else if verb == "DRM_ENC" then (if cstr p = [] then "OK -" else fmt (.ok (base64ToOpaqueStrip (cstr p))))
      else "BADVERB"
  | ["SWEEP_WVI", seed, count] => sweepWvi (UInt64.ofNat seed.toNat!) count.toNat!
  | _ => "BADVERB"

end Driver.Typed
