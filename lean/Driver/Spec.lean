/-
  SPEC verb: the Lean specification (`Spec/Wbxml.lean`) as an oracle on octets.

      SPEC <forced-lang> <meta-charset> <hex>
        →  S <wf> <reser> ; <events>          the octets are a document of the grammar
        →  S - - ;                            they are not (nothing to compare)

  `Driver.Spec.decode` is a strict reader of the WBXML BNF (WAP-192 §5) into `Spec.Doc`, written
  from the grammar and independent of `Model/Parser.lean` (no look-ahead tricks, no best-effort
  paths). `<wf>` is `Spec.Doc.wf`, `<reser>` tells whether `Spec.ser` of the decoded document
  reproduces the octets read (a run-time check of the reader itself), `<events>` is
  `Spec.events` in the PARSE event format. For `wf = 1` documents `Props.C04.parse_ser` proves
  that the parser MODEL delivers exactly these events; the check can therefore compare the
  IMPLEMENTATION's PARSE line with this one.

  Entry point for `Driver/Main.lean`:  `Driver.specVerb : List String → String`.
-/
import Wbxml.Spec.Wbxml
import Wbxml.Gen.Tables
import Driver.Parse
namespace Driver.Spec
open Wbxml Wbxml.Spec Wbxml.Model

def u8 : Bytes → Option (Nat × Bytes)
  | [] => none
  | b :: r => some (b.toNat, r)

/-- `mb_u_int32` (at most five octets). -/
def mbInt (bs : Bytes) : Option (Nat × Bytes) :=
  match Codec.mbDecode bs with
  | .ok (v, r) => some (v, r)
  | .error _ => none

/-- `termstr`: octets up to the terminator. -/
def termstr (bs : Bytes) : Option (Bytes × Bytes) :=
  let s := bs.takeWhile (· != 0)
  if s.length < bs.length then some (s, bs.drop (s.length + 1)) else none

def isExtI (b : Nat) : Bool := b == 0x40 || b == 0x41 || b == 0x42
def isExtT (b : Nat) : Bool := b == 0x80 || b == 0x81 || b == 0x82
def isExt0 (b : Nat) : Bool := b == 0xC0 || b == 0xC1 || b == 0xC2

/-- `(EXT_I termstr) | (EXT_T index) | EXT`, the token octet already read. -/
def extBody (tok : Nat) (bs : Bytes) : Option (Ext × Bytes) :=
  if isExtI tok then do let (s, r) ← termstr bs; pure (.inl (tok - 0x40) s, r)
  else if isExtT tok then do let (v, r) ← mbInt bs; pure (.tbl (tok - 0x80) v, r)
  else if isExt0 tok then pure (.tok (tok - 0xC0), bs)
  else none

/-- `[switchPage]`. -/
def optSw : Bytes → Option Nat × Bytes
  | 0x00 :: p :: r => (some p.toNat, r)
  | bs => (none, bs)

/-- One `attrValue`, or `none` when the next octet does not start one. -/
def aval (bs : Bytes) : Option (AVal × Bytes) :=
  let (sw, r0) := optSw bs
  match r0 with
  | [] => none
  | b :: r =>
    let t := b.toNat
    if isExtI t || isExtT t || isExt0 t then do let (x, r) ← extBody t r; pure (.ext sw x, r)
    else if sw.isSome then (if t ≥ 0x80 && t != 0x83 && t != 0xC3 && t != 0x84 && t != 0xC4 then some (.tok sw t, r) else none)
    else if t == 0x02 then do let (c, r) ← mbInt r; pure (.entity c, r)
    else if t == 0x03 then do let (s, r) ← termstr r; pure (.str (.inl s), r)
    else if t == 0x83 then do let (o, r) ← mbInt r; pure (.str (.tbl o), r)
    else if t == 0xC3 then do
      let (n, r) ← mbInt r
      if n ≤ r.length then pure (.opaque (r.take n), r.drop n) else none
    else if t ≥ 0x80 && t != 0x84 && t != 0xC4 then some (.tok none t, r)
    else none

def avals : Nat → Bytes → List AVal × Bytes
  | 0, bs => ([], bs)
  | f + 1, bs =>
    match aval bs with
    | none => ([], bs)
    | some (v, r) => let (vs, r') := avals f r; (v :: vs, r')

/-- `attrStart`. -/
def astart (bs : Bytes) : Option (AStart × Bytes) :=
  match bs with
  | 0x04 :: r => do let (o, r) ← mbInt r; pure (.lit o, r)
  | _ =>
    let (sw, r0) := optSw bs
    match r0 with
    | b :: r => if b.toNat < 0x80 && b.toNat ≥ 5 && !(isExtI b.toNat) && b.toNat != 0x43 && b.toNat != 0x44
                then some (.tok sw b.toNat, r) else none
    | [] => none

def attrib (bs : Bytes) : Option (Attribute × Bytes) := do
  let (s, r) ← astart bs
  let (vs, r) := avals r.length r
  pure (⟨s, vs⟩, r)

/-- `1*attribute END`. -/
def attributes : Nat → Bytes → Option (List Attribute × Bytes)
  | 0, _ => none
  | f + 1, bs => do
    let (a, r) ← attrib bs
    match r with
    | 0x01 :: r' => pure ([a], r')
    | _ => do let (as, r') ← attributes f r; pure (a :: as, r')

/-- `PI attrStart *attrValue END`, the `PI` octet already read. -/
def piBody (bs : Bytes) : Option (Attribute × Bytes) := do
  let (a, r) ← attrib bs
  match r with
  | 0x01 :: r' => pure (a, r')
  | _ => none

mutual
/-- `element`. -/
def element : Nat → Bytes → Option (Elem × Bytes)
  | 0, _ => none
  | f + 1, bs =>
    let (sw, r0) := optSw bs
    match r0 with
    | [] => none
    | b :: r => do
      let t := b.toNat
      let low := t % 64
      let (tag, r) ← (if low == 4 then do let (o, r) ← mbInt r; pure (Tag.lit o, r)
                       else if low ≥ 5 then pure (Tag.tok low, r) else none : Option (Tag × Bytes))
      let (attrs, r) ← (if t ≥ 0x80 then attributes r.length r else pure ([], r) : Option (List Attribute × Bytes))
      if t % 128 ≥ 64 then do
        let (items, r) ← content f r
        pure (.mk sw tag attrs (some items), r)
      else pure (.mk sw tag attrs none, r)
/-- `*content END`. -/
def content : Nat → Bytes → Option (List Item × Bytes)
  | 0, _ => none
  | f + 1, bs =>
    match bs with
    | [] => none
    | 0x01 :: r => some ([], r)
    | b :: r => do
      let t := b.toNat
      let (it, r') ← (
        if t == 0x02 then do let (c, r) ← mbInt r; pure (Item.entity c, r)
        else if t == 0x03 then do let (s, r) ← termstr r; pure (Item.str (.inl s), r)
        else if t == 0x83 then do let (o, r) ← mbInt r; pure (Item.str (.tbl o), r)
        else if t == 0xC3 then do
          let (n, r) ← mbInt r
          if n ≤ r.length then pure (Item.opaque (r.take n), r.drop n) else none
        else if t == 0x43 then do let (a, r) ← piBody r; pure (Item.pi a, r)
        else if isExtI t || isExtT t || isExt0 t then do let (x, r) ← extBody t r; pure (Item.ext none x, r)
        else if t == 0x00 then
          (match r with
           | p :: b2 :: r2 =>
             if isExtI b2.toNat || isExtT b2.toNat || isExt0 b2.toNat then do
               let (x, r) ← extBody b2.toNat r2; pure (Item.ext (some p.toNat) x, r)
             else do let (e, r) ← element f bs; pure (Item.elem e, r)
           | _ => none)
        else do let (e, r) ← element f bs; pure (Item.elem e, r) : Option (Item × Bytes))
      let (its, r'') ← content f r'
      pure (it :: its, r'')
end

def pis : Nat → Bytes → List Attribute × Bytes
  | 0, bs => ([], bs)
  | f + 1, bs =>
    match bs with
    | 0x43 :: r =>
      (match piBody r with
       | some (a, r') => let (as, r'') := pis f r'; (a :: as, r'')
       | none => ([], bs))
    | _ => ([], bs)

/-- Split the string table octets into its terminated entries (`none` if unterminated). -/
def entries : Nat → Bytes → Option (List Bytes)
  | _, [] => some []
  | 0, _ => none
  | f + 1, bs => do
    let (s, r) ← termstr bs
    let es ← entries f r
    pure (s :: es)

/-- `start = version publicid charset strtbl body`; returns the document and the octets left. -/
def decode (bs : Bytes) : Option (Doc × Bytes) := do
  let (ver, r) ← u8 bs
  let (pubid, r) ← (match r with
    | 0x00 :: r' => do let (i, r'') ← mbInt r'; pure (PubIdent.str i, r'')
    | _ => do let (p, r') ← mbInt r; pure (PubIdent.num p, r') : Option (PubIdent × Bytes))
  let (cs, r) ← (if ver == 0 then pure (0, r) else mbInt r : Option (Nat × Bytes))
  let (n, r) ← mbInt r
  if n > r.length then none else
  let es ← entries n (r.take n)
  let r := r.drop n
  let (pre, r) := pis r.length r
  let (root, r) ← element (r.length + 1) r
  let (post, r) := pis r.length r
  pure ({ hdr := ⟨ver, pubid, cs, es⟩, pre := pre, root := root, post := post }, r)

end Driver.Spec

namespace Driver
open Wbxml Wbxml.Spec Wbxml.Model

/-- `SPEC <forced-lang> <meta-charset> <hex>`. -/
def specVerb (args : List String) : String :=
  match args with
  | [lang, cs, doc] =>
    match (if doc == "-" then some [] else bytesOfHex doc) with
    | none => "BADARG"
    | some bs =>
      let cfg : PCfg := { main := Gen.main, langForced := lang.toNat!, metaCharset := cs.toNat! }
      match Driver.Spec.decode bs with
      | none => "S - - ; "
      | some (d, rest) =>
        let wf := if d.wf cfg then "1" else "0"
        let reser := if ser d ++ rest == bs then "1" else "0"
        s!"S {wf} {reser} ; " ++ " / ".intercalate ((events cfg d).map fmtEvent)
  | _ => "BADARG"

end Driver
