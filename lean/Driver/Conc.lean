/- Line-protocol handlers for C14: item-by-item evaluation of the structural predicates of
   Props/C14 over the regenerated `Gen.Globals` (names the failing symbol when an obligation breaks),
   and classification of arbitrary symbol / section names (self-test of the committed rule).

     GLOBALS            -> OK objects=<n> wsections=<n> undefined=<n> fails=<item;item;…|->
                           item = obj:<member>:<name>:<section>:<kind> | sec:<member>:<section>:<size> |
                                  ext:<name>:<class> | kind:<member>:<name>:<kind>
     EXT <name>         -> T <class> | F <class>
     SEC <section>      -> T | F
     OBJ <section> <name> -> T | F
-/
import Wbxml.Model.Posix
import Wbxml.Gen.Globals
namespace Driver
open Wbxml Wbxml.Model.Posix

def bytesOfAscii (s : String) : Bytes := s.toUTF8.toList

def globalsVerb : String :=
  let objFails := Gen.Globals.objects.filterMap fun g =>
    if objectOK g.sec g.name then
      (if g.kind == b!"OBJECT" then none
       else some s!"kind:{strOf g.file}:{strOf g.name}:{strOf g.kind}")
    else some s!"obj:{strOf g.file}:{strOf g.name}:{strOf g.sec}:{strOf g.kind}"
  let secFails := Gen.Globals.wsections.filterMap fun s =>
    if writableSectionOK s.sec then none else some s!"sec:{strOf s.file}:{strOf s.sec}:{s.size}"
  let extFails := Gen.Globals.undefined.filterMap fun s =>
    let c := classify s
    if c.ok then none else some s!"ext:{strOf s}:{c.toString}"
  let fails := objFails ++ secFails ++ extFails
  let f := if fails.isEmpty then "-" else ";".intercalate fails
  s!"OK objects={Gen.Globals.objects.length} wsections={Gen.Globals.wsections.length} undefined={Gen.Globals.undefined.length} fails={f}"

def conc (verb : String) (args : List String) : String :=
  match verb, args with
  | "GLOBALS", [] => globalsVerb
  | "EXT", [name] =>
    let c := classify (bytesOfAscii name)
    (if c.ok then "T " else "F ") ++ c.toString
  | "SEC", [sec] => if readOnlySection (bytesOfAscii sec) then "T" else "F"
  | "OBJ", [sec, name] => if objectOK (bytesOfAscii sec) (bytesOfAscii name) then "T" else "F"
  | _, _ => "BADVERB"

end Driver
