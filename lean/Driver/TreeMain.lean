/- Line-protocol driver for the Tree component (TREE verb, C18); handlers are in Driver/TreeOps.lean. -/
import Driver.TreeOps

partial def loop (h : IO.FS.Stream) (out : IO.FS.Stream) : IO Unit := do
  let line ← h.getLine
  if line.isEmpty then return ()
  out.putStrLn (Driver.TreeOps.dispatch line)
  loop h out

def main : IO Unit := do
  let out ← IO.getStdout
  loop (← IO.getStdin) out
  out.flush
