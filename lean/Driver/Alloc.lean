/- Line-protocol handlers for the allocation component (verb OOM); the ledger-monad models of
   `Model/Alloc*.lean` are run, nothing else.  See harness/oom.c for the request grammar. -/
import Wbxml.Model.AllocCont
import Wbxml.Model.AllocParse
import Wbxml.Model.AllocEnc
import Wbxml.Model.AllocOld
import Wbxml.Model.AllocTree
import Wbxml.Model.AllocParseLoop
import Wbxml.Model.AllocXml
import Wbxml.Model.AllocTreeXml
namespace Driver.AllocDrv
open Wbxml Wbxml.Model.Alloc

def hexOrDash (bs : Bytes) : String := if bs.isEmpty then "-" else hexOfBytes bs
def unhex (s : String) : Option Bytes := if s == "-" then some [] else bytesOfHex s

/-- `N` = NULL, otherwise hex (`-` = empty). -/
def unhexOpt (s : String) : Option (Option Bytes) :=
  if s == "N" then some none else (unhex s).map some

/-! ### U: the container op machine -/

structure Slots where
  b : List (Option ABuf) := List.replicate 8 none
  l : List (Option (AList Nat)) := List.replicate 4 none
  m : List (Option (AList ABuf)) := List.replicate 4 none
  t : List (Option AName) := List.replicate 4 none       -- wbxml_tag_*
  n : List (Option AName) := List.replicate 4 none       -- wbxml_attribute_name_*
  a : List (Option AAttr) := List.replicate 4 none
  o : List (Option ANode) := List.replicate 2 none

def getS (xs : List (Option α)) (i : Nat) : Option α := (xs[i]?).join
def setS (xs : List (Option α)) (i : Nat) (v : Option α) : List (Option α) := xs.set i v

def pn (p : Option α) : String := if p.isSome then "P" else "0"
def tf (b : Bool) : String := if b then "T" else "F"

/-- One op: new slots and the printed result. A target slot that is NULL skips the op (`-`). -/
def stepU (sl : Slots) (op : String) : Prog (Slots × String) :=
  match op.splitOn "." with
  | ["bc", d, h, blk] =>
    match unhexOpt h with
    | none => pure (sl, "BAD")
    | some src => do
      let r ← bufCreate src blk.toNat!
      pure ({ sl with b := setS sl.b d.toNat! r }, pn r)
  | ["bs", d, h] =>
    match unhex h with
    | none => pure (sl, "BAD")
    | some bs => do
      let r ← bufStaCreate bs
      pure ({ sl with b := setS sl.b d.toNat! r }, pn r)
  | ["bx", d] => do
    bufDestroy (getS sl.b d.toNat!)
    pure ({ sl with b := setS sl.b d.toNat! none }, "v")
  | ["bap", d, h] =>
    match getS sl.b d.toNat!, unhex h with
    | some b, some bs => do
      let (b, ok) ← bufAppendData b (some bs)
      pure ({ sl with b := setS sl.b d.toNat! (some b) }, tf ok)
    | _, _ => pure (sl, "-")
  | ["bac", d, h] =>
    match getS sl.b d.toNat!, unhex h with
    | some b, some [c] => do
      let (b, ok) ← bufAppendChar b c
      pure ({ sl with b := setS sl.b d.toNat! (some b) }, tf ok)
    | _, _ => pure (sl, "-")
  | ["bab", d, s] =>
    match getS sl.b d.toNat! with
    | some b => do
      let src := if s == "N" then none else getS sl.b s.toNat!
      let (b, ok) ← bufAppend b src
      pure ({ sl with b := setS sl.b d.toNat! (some b) }, tf ok)
    | none => pure (sl, "-")
  | ["bic", d, pos, h] =>
    match getS sl.b d.toNat!, unhex h with
    | some b, some bs => do
      let (b, ok) ← bufInsertCstr b bs pos.toNat!
      pure ({ sl with b := setS sl.b d.toNat! (some b) }, tf ok)
    | _, _ => pure (sl, "-")
  | ["bd", d, s] => do
    let r ← bufDuplicate (getS sl.b s.toNat!)
    pure ({ sl with b := setS sl.b d.toNat! r }, pn r)
  | ["lc", d] => do
    let r ← listCreate (ι := Nat)
    pure ({ sl with l := setS sl.l d.toNat! r }, pn r)
  | ["la", l, it] =>
    match getS sl.l l.toNat! with
    | some x => do
      let (x, ok) ← listAppend x it.toNat!
      pure ({ sl with l := setS sl.l l.toNat! (some x) }, tf ok)
    | none => pure (sl, "-")
  | ["li", l, it, pos] =>
    match getS sl.l l.toNat! with
    | some x => do
      let (x, ok) ← listInsert x it.toNat! pos.toNat!
      pure ({ sl with l := setS sl.l l.toNat! (some x) }, tf ok)
    | none => pure (sl, "-")
  | ["le", l] =>
    match getS sl.l l.toNat! with
    | some x => do
      let (x, it) ← listExtractFirst x
      pure ({ sl with l := setS sl.l l.toNat! (some x) }, toString (it.getD 0))
    | none => pure (sl, "-")
  | ["lx", l] => do
    listDestroy (getS sl.l l.toNat!) (fun _ => pure ())
    pure ({ sl with l := setS sl.l l.toNat! none }, "v")
  | ["mc", d] => do
    let r ← listCreate (ι := ABuf)
    pure ({ sl with m := setS sl.m d.toNat! r }, pn r)
  | ["ma", m, bs] =>
    match getS sl.m m.toNat!, getS sl.b bs.toNat! with
    | some x, some b => do
      let (x, ok) ← listAppend x b
      let sl := { sl with m := setS sl.m m.toNat! (some x) }
      pure ((if ok then { sl with b := setS sl.b bs.toNat! none } else sl), tf ok)
    | _, _ => pure (sl, "-")
  | ["me", m, bs] =>
    match getS sl.m m.toNat!, getS sl.b bs.toNat! with
    | some x, none => do
      let (x, it) ← listExtractFirst x
      pure ({ sl with m := setS sl.m m.toNat! (some x), b := setS sl.b bs.toNat! it }, pn it)
    | _, _ => pure (sl, "-")
  | ["mx", m] => do
    listDestroy (getS sl.m m.toNat!) (fun b => bufDestroy (some b))
    pure ({ sl with m := setS sl.m m.toNat! none }, "v")
  | [k, d, h] =>
    if k == "tl" || k == "nl" then
      match unhexOpt h with
      | none => pure (sl, "BAD")
      | some v => do
        let r ← nameCreateLiteral v
        pure ((if k == "tl" then { sl with t := setS sl.t d.toNat! r } else { sl with n := setS sl.n d.toNat! r }), pn r)
    else if k == "tt" || k == "nt" then do
      let r ← nameCreateToken h.toNat!
      pure ((if k == "tt" then { sl with t := setS sl.t d.toNat! r } else { sl with n := setS sl.n d.toNat! r }), pn r)
    else if k == "td" then do
      let r ← nameDuplicate (getS sl.t h.toNat!)
      pure ({ sl with t := setS sl.t d.toNat! r }, pn r)
    else if k == "nd" then do
      let r ← nameDuplicate (getS sl.n h.toNat!)
      pure ({ sl with n := setS sl.n d.toNat! r }, pn r)
    else if k == "ad" then do
      let r ← attrDuplicate (getS sl.a h.toNat!)
      pure ({ sl with a := setS sl.a d.toNat! r }, pn r)
    else if k == "oa" then
      match getS sl.o d.toNat!, getS sl.a h.toNat! with
      | some nd, some att => do
        let (nd, ret) ← nodeAddAttr nd att
        pure ({ sl with o := setS sl.o d.toNat! (some nd) }, toString ret)
      | _, _ => pure (sl, "-")
    else pure (sl, "BAD")
  | ["tx", d] => do
    nameDestroy (getS sl.t d.toNat!)
    pure ({ sl with t := setS sl.t d.toNat! none }, "v")
  | ["nx", d] => do
    nameDestroy (getS sl.n d.toNat!)
    pure ({ sl with n := setS sl.n d.toNat! none }, "v")
  | ["ac", d] => do
    let r ← attrCreate
    pure ({ sl with a := setS sl.a d.toNat! r }, pn r)
  | ["as", a, ns, bs] =>
    -- attr->name = <name slot>; attr->value = <buffer slot> (only into empty members)
    match getS sl.a a.toNat! with
    | some att =>
      if att.name.isSome || att.value.isSome then pure (sl, "-")
      else
        let nm := if ns == "N" then none else getS sl.n ns.toNat!
        let v := if bs == "N" then none else getS sl.b bs.toNat!
        let sl := { sl with a := setS sl.a a.toNat! (some { att with name := nm, value := v }) }
        let sl := if ns == "N" then sl else { sl with n := setS sl.n ns.toNat! none }
        let sl := if bs == "N" then sl else { sl with b := setS sl.b bs.toNat! none }
        pure (sl, "v")
    | none => pure (sl, "-")
  | ["ax", d] => do
    attrDestroy (getS sl.a d.toNat!)
    pure ({ sl with a := setS sl.a d.toNat! none }, "v")
  | ["oc", d] => do
    let r ← nodeCreate
    pure ({ sl with o := setS sl.o d.toNat! r }, pn r)
  | ["ox", d] => do
    nodeDestroy (getS sl.o d.toNat!)
    pure ({ sl with o := setS sl.o d.toNat! none }, "v")
  | _ => pure (sl, "BAD")

def runOps (sl : Slots) : List String → Prog (Slots × List String)
  | [] => pure (sl, [])
  | op :: rest => do
    let (sl, r) ← stepU sl op
    let (sl, rs) ← runOps sl rest
    pure (sl, r :: rs)

def bufStr (b : ABuf) : String :=
  s!"{b.len}:{hexOrDash b.bytes}:{if b.isStatic then "S" else "D"}"

def nameStr (t : AName) : String :=
  match t.v with
  | .token r => s!"T{r}"
  | .literal none => "LN"
  | .literal (some b) => s!"L{hexOrDash b.bytes}"

def attrStr (a : AAttr) : String :=
  s!"({match a.name with | none => "N" | some t => nameStr t};{match a.value with | none => "N" | some b => hexOrDash b.bytes})"

def idx (xs : List (Option α)) : List (Nat × Option α) := (List.range xs.length).zip xs

def dumpSlots (sl : Slots) : String :=
  let bs := (idx sl.b).filterMap fun (i, x) => x.map fun b => s!"b{i}={bufStr b}"
  let ls := (idx sl.l).filterMap fun (i, x) => x.map fun l => s!"l{i}=[{",".intercalate (l.items.map toString)}]"
  let ms := (idx sl.m).filterMap fun (i, x) => x.map fun l => s!"m{i}=[{",".intercalate (l.items.map fun b => hexOrDash b.bytes)}]"
  let ts := (idx sl.t).filterMap fun (i, x) => x.map fun t => s!"t{i}={nameStr t}"
  let ns := (idx sl.n).filterMap fun (i, x) => x.map fun t => s!"n{i}={nameStr t}"
  let as := (idx sl.a).filterMap fun (i, x) => x.map fun a => s!"a{i}={attrStr a}"
  let os := (idx sl.o).filterMap fun (i, x) => x.map fun o =>
    s!"o{i}={match o.attrs with | none => "N" | some l => "".intercalate (l.items.map attrStr)}"
  " ".intercalate (bs ++ ls ++ ms ++ ts ++ ns ++ as ++ os)

def tail (s0 s : Ledger) : String :=
  s!"req={s.next - s0.next} hits={s.hits} live={s.live.length - s0.live.length}"

def sched (base : Nat) (k1 k2 : Nat) : List Nat :=
  (if k1 = 0 then [] else [base + k1]) ++ (if k2 = 0 then [] else [base + k2])

def doU (k1 k2 : Nat) (ops : List String) : String :=
  let s0 : Ledger := { sched := sched 0 k1 k2 }
  match run (runOps {} ops) s0 with
  | (.ok (sl, rs), s) => s!"R {" ".intercalate rs} | {tail s0 s} fault=none |{let d := dumpSlots sl; if d.isEmpty then "" else " " ++ d}"
  | (.error (.ub w), _) => s!"UB {w}"
  | (.error _, _) => "UB ?"

/-! ### P: `parse_element` skeleton -/

/-- `<hex>` or `<idx>.<hex>` (the index is the harness's business: where the string sits in the table). -/
def hexAfterIdx (r : List Char) : Option Bytes :=
  match (String.ofList r).splitOn "." with
  | [h] => unhex h
  | [_, h] => unhex h
  | _ => none

def parsePiece (s : String) : Option Piece :=
  match s.toList with
  | 'S' :: r => (if r == ['-'] then some [] else bytesOfHexChars r).map .sta
  | 'R' :: r => (hexAfterIdx r).map .sta
  | 'D' :: r => (if r == ['-'] then some [] else bytesOfHexChars r).map .dyn
  | 'E' :: r => some (.err (String.ofList r).toNat!)
  | _ => none

def parseStart (s : String) : Option AttrStart :=
  match s.toList with
  | 'T' :: r =>
    match (String.ofList r).splitOn "/" with
    | [row, pfx] => (unhexOpt pfx).map (.token row.toNat!)
    | _ => none
  | ['U'] => some .unknown
  | 'L' :: r => (hexAfterIdx r).map .literal
  | 'E' :: r => some (.err (String.ofList r).toNat!)
  | _ => none

def parseAttrShape (s : String) : Option AttrShape :=
  match s.splitOn ":" with
  | [st] => (parseStart st).map (⟨·, []⟩)
  | [st, ps] => do
    let st ← parseStart st
    let ps ← (ps.splitOn ",").mapM parsePiece
    pure ⟨st, ps⟩
  | _ => none

def parseTagShape (s : String) : Option TagShape :=
  match s.toList with
  | 'T' :: r => some (.token (String.ofList r).toNat!)
  | ['U'] => some .unknown
  | 'L' :: r => (hexAfterIdx r).map .literal
  | 'E' :: r => some (.err (String.ofList r).toNat!)
  | _ => none

def doP (old : Bool) (k1 k2 : Nat) (tag attrs : String) : String :=
  match parseTagShape tag, (if attrs == "-" then some [] else (attrs.splitOn "|").mapM parseAttrShape) with
  | some t, some as =>
    let s0 : Ledger := { sched := sched 0 k1 k2 }
    match run (if old then Old.parseElement t as else parseElement t as) s0 with
    | (.ok ret, s) => s!"R {ret} | {tail s0 s} fault=none"
    | (.error (.ub w), _) => s!"UB {w}"
    | (.error _, _) => "UB ?"
  | _, _ => "BADREQ"

/-! ### S: `wbxml_strtbl_initialize`; T: `wbxml_tree_to_wbxml` on an element-only tree -/

/-- The text nodes exist before the observed call: created without failures. -/
def mkTexts : List Bytes → Prog (List ABuf)
  | [] => pure []
  | t :: rest => do
    let b ← bufCreate (some t) t.length
    let bs ← mkTexts rest
    match b with
    | none => ub "setup allocation failed"
    | some b => pure (b :: bs)

def tblStr (e : AEnc) : String :=
  match e.strstbl with
  | none => "N"
  | some l => if l.items.isEmpty then "-" else ",".intercalate (l.items.map fun x => hexOrDash x.string.bytes)

def doS (k1 k2 : Nat) (texts : String) : String :=
  match (if texts == "-" then some [] else (texts.splitOn ",").mapM unhex) with
  | none => "BADREQ"
  | some ts =>
    -- setup: the text buffers and the encoder, no failure scheduled
    match run (do let bs ← mkTexts ts; let e ← encCreate; pure (bs, e)) {} with
    | (.ok (bs, some e), s1) =>
      let s1 := { s1 with sched := sched s1.next k1 k2, hits := 0 }
      match run (strtblInitialize e bs) s1 with
      | (.ok (e, ret), s) => s!"R {ret} | {tail s1 s} fault=none | tbl={tblStr e} len={e.strstblLen}"
      | (.error (.ub w), _) => s!"UB {w}"
      | (.error _, _) => "UB ?"
    | _ => "UB setup"

def doT (old : Bool) (k1 k2 : Nat) (useStr : Bool) (version publicId : Nat) (chunks : String) : String :=
  match (if chunks == "-" then some [] else (chunks.splitOn ",").mapM unhex) with
  | none => "BADREQ"
  | some cs =>
    let s0 : Ledger := { sched := sched 0 k1 k2 }
    match run (if old then Old.treeToWbxml useStr [] cs version publicId else treeToWbxml useStr [] cs version publicId) s0 with
    | (.ok (ret, out), s) =>
      s!"R {ret} | {tail s0 s} fault=none | out={match out with | none => "N" | some (_, bs) => hexOrDash bs}"
    | (.error (.ub w), _) => s!"UB {w}"
    | (.error _, _) => "UB ?"

/-! ### B: the tree-building call-backs (`wbxml_tree_clb_wbxml_*`) -/

inductive NameSpec where
  | token (row : Nat)
  | literal (b : Bytes)

def parseNameSpec (cs : List Char) : Option NameSpec :=
  match cs with
  | 'T' :: r => some (.token (String.ofList r).toNat!)
  | 'L' :: r => (if r == ['-'] then some [] else bytesOfHexChars r).map .literal
  | _ => none

inductive EvSpec where
  | start (tag : NameSpec) (attrs : List (NameSpec × Option Bytes))
  | stop
  | chars (text : Bytes) (cd : Bool)

def parseAttrSpec (s : String) : Option (NameSpec × Option Bytes) :=
  match s.splitOn "=" with
  | [n, v] => do
    let n ← parseNameSpec n.toList
    let v ← unhexOpt v
    pure (n, v)
  | _ => none

def parseEvSpec (s : String) : Option EvSpec :=
  match s.toList with
  | ['E'] => some .stop
  | 'C' :: r => (unhex (String.ofList r)).map (.chars · false)
  | 'V' :: r => (unhex (String.ofList r)).map (.chars · true)
  | 'S' :: r =>
    match (String.ofList r).splitOn "/" with
    | [t] => (parseNameSpec t.toList).map (.start · [])
    | [t, as] => do
      let t ← parseNameSpec t.toList
      let as ← (as.splitOn ";").mapM parseAttrSpec
      pure (.start t as)
    | _ => none
  | _ => none

def mkName : NameSpec → Prog AName
  | .token r => do
    match ← nameCreateToken r with
    | some t => pure t
    | none => ub "setup allocation failed"
  | .literal b => do
    match ← nameCreateLiteral (some b) with
    | some t => pure t
    | none => ub "setup allocation failed"

def mkAttrs : List (NameSpec × Option Bytes) → Prog (List AAttr)
  | [] => pure []
  | (n, v) :: rest => do
    let a ← attrCreate
    let nm ← mkName n
    let vb ← (match v with
      | none => pure none
      | some bs => bufCreate (some bs) bs.length)
    let as ← mkAttrs rest
    match a with
    | none => ub "setup allocation failed"
    | some a => pure ({ a with name := some nm, value := vb } :: as)

/-- The objects the parser hands to the call-backs exist before the observed window. -/
def mkEvents : List EvSpec → Prog (List TEvent)
  | [] => pure []
  | .start t as :: rest => do
    let tag ← mkName t
    let attrs ← mkAttrs as
    let evs ← mkEvents rest
    pure (.start tag attrs :: evs)
  | .stop :: rest => do
    let evs ← mkEvents rest
    pure (.stop :: evs)
  | .chars b cd :: rest => do
    let evs ← mkEvents rest
    pure (.chars b cd :: evs)

def framesSig : List Frame → String → String
  | [], inner => inner
  | f :: rest, inner => framesSig rest s!"({headSig f.kind f.node}{"".intercalate (f.kids.map (·.sig))}{inner})"

def ctxSig (c : TCtx) : String :=
  match c.root with
  | some k => k.sig
  | none => if c.frames.isEmpty then "-" else framesSig c.frames ""

def doB (k1 k2 : Nat) (events : String) : String :=
  match (if events == "-" then some [] else (events.splitOn ",").mapM parseEvSpec) with
  | none => "BADREQ"
  | some specs =>
    match run (mkEvents specs) {} with
    | (.ok evs, s1) =>
      let s1 := { s1 with sched := sched s1.next k1 k2, hits := 0 }
      match run (treeFromEvents evs) s1 with
      | (.ok (ret, c), s) =>
        s!"R {ret} | {tail s1 s} fault=none | cur={match c with | none => 0 | some c => c.frames.length} tree={match c with | none => "N" | some c => ctxSig c}"
      | (.error (.ub w), _) => s!"UB {w}"
      | (.error _, _) => "UB ?"
    | _ => "UB setup"


/-! ### D: `wbxml_tree_from_wbxml` on a document given by its shapes (see harness/oom.c for the grammar) -/

def extSuffix (k : String) : Option Bytes :=
  if k == "0" then some b!":escape" else if k == "1" then some b!":unesc" else if k == "2" then some b!":noesc" else none

def parseContentSpec (s : String) : Option Content :=
  match s.toList with
  | 'S' :: r => (unhex (String.ofList r)).map (fun b => .ref (.sta b))
  | 'R' :: r => (hexAfterIdx r).map (fun b => .ref (.sta b))
  | 'D' :: r => (unhex (String.ofList r)).map (fun b => .ref (.dyn b))
  | 'N' :: r => (hexAfterIdx r).map (fun b => .ref (.dyn b))
  | 'B' :: r =>
    match (String.ofList r).splitOn "." with
    | [b, e] => do
      let b ← unhex b
      let e ← unhex e
      pure (.opqB64 b e)
    | _ => none
  | 'X' :: 'I' :: r =>
    match (String.ofList r).splitOn "." with
    | [k, h] => do
      let sfx ← extSuffix k
      let v ← unhex h
      pure (.ext (.sta v) sfx)
    | _ => none
  | 'X' :: 'T' :: r =>
    match (String.ofList r).splitOn "." with
    | [k, _, h] => do
      let sfx ← extSuffix k
      let v ← unhex h
      pure (.ext (.sta v) sfx)
    | _ => none
  | '!' :: r => some (.ref (.err (String.ofList r).toNat!))
  | _ => none

def parseAttrList (s : String) : Option (List AttrShape) :=
  if s == "-" then some [] else (s.splitOn "|").mapM parseAttrShape

/-- `B<c><tag>~<attrs>`: (tag, attributes, content flag). -/
def parseElemSpec (r : List Char) : Option (TagShape × List AttrShape × Bool) :=
  match r with
  | c :: rest =>
    match (String.ofList rest).splitOn "~" with
    | [t, as] => do
      let t ← parseTagShape t
      let as ← parseAttrList as
      pure (t, as, c == '1')
    | _ => none
  | [] => none

def parseItemSpec (s : String) : Option Item :=
  match s.toList with
  | ['E'] => some .stop
  | ['W'] => some .skip
  | ['X', _] => some .skip
  | 'B' :: r => (parseElemSpec r).map fun (t, as, c) => .elem t as c
  | 'C' :: l :: r => (parseContentSpec (String.ofList r)).map (.content · (l == 'V'))
  | 'P' :: r => (parseAttrShape (String.ofList r)).map .pi
  | '!' :: r => some (.err (String.ofList r).toNat!)
  | _ => none

def parseStrtblSpec (s : String) : Option StrtblShape :=
  match s.toList with
  | ['-'] => some .none
  | 'Z' :: r => (unhex (String.ofList r)).map .tbl
  | 'E' :: r => some (.err (String.ofList r).toNat!)
  | _ => none

def parsePubidSpec (s : String) : Option PubidShape :=
  match s.toList with
  | ['K'] => some .known
  | ['U'] => some .unknown
  | 'S' :: 'F' :: _ => some (.strRef (.sta []) true)
  | 'S' :: 'N' :: _ => some (.strRef (.sta []) false)
  | 'S' :: 'E' :: _ => some (.strRef (.err 48) false)          -- WBXML_ERROR_INVALID_STRTBL_INDEX: index beyond the table
  | ['S', 'X'] => some (.strRef (.dyn b!"xmlns") false)
  | _ => none

def parseRootSpec (s : String) : Option RootShape :=
  match s.toList with
  | 'B' :: r => (parseElemSpec r).map fun (t, as, c) => .elem t as c
  | '!' :: r => some (.err (String.ofList r).toNat!)
  | _ => none

def doD (k1 k2 : Nat) (wb hdr strtbl pubid pre root body : String) : String :=
  let doc : Option Doc := do
    let w ← unhex wb
    let st ← parseStrtblSpec strtbl
    let pi ← parsePubidSpec pubid
    let pre ← (if pre == "-" then some [] else (pre.splitOn ";").mapM parseAttrShape)
    let root ← parseRootSpec root
    let body ← (if body == "-" then some [] else (body.splitOn ";").mapM parseItemSpec)
    pure ⟨w, hdr.toNat!, st, pi, pre, root, body⟩
  match doc with
  | none => "BADREQ"
  | some d =>
    let s0 : Ledger := { sched := sched 0 k1 k2 }
    match run (treeFromWbxml d) s0 with
    | (.ok (ret, c), s) =>
      s!"R {ret} | {tail s0 s} fault=none | tree={match c with | none => "N" | some c => ctxSig c}"
    | (.error (.ub w), _) => s!"UB {w}"
    | (.error _, _) => "UB ?"


/-! ### X: `wbxml_tree_to_xml` on a tree given by its shapes (grammar at the head of `do_X` in harness/oom.c) -/

/-- A tree description: as `XNode`, the text contents not yet allocated. -/
inductive XSpec where
  | elt (name : Bytes) (xmlns : Option Bytes) (binary metType : Bool) (attrs : List XAttr) (kids : List XSpec)
  | text (b : Bytes)
  | cdata (kids : List XSpec)
  | tree (lang : XLang) (root : XSpec)
  | other (code : Nat)
  deriving Inhabited

def isHexC (c : Char) : Bool := ('0' ≤ c && c ≤ '9') || ('a' ≤ c && c ≤ 'f') || c == '-'

/-- `<hex>` or `-`. -/
def pHex (cs : List Char) : Option (Bytes × List Char) :=
  let h := cs.takeWhile isHexC
  (if h == ['-'] then some [] else bytesOfHexChars h).map (·, cs.dropWhile isHexC)

def pNat (cs : List Char) : Nat × List Char :=
  ((String.ofList (cs.takeWhile Char.isDigit)).toNat!, cs.dropWhile Char.isDigit)

/-- `<letter>:<fff>:<root>:<public id>:<dtd>` -/
def pLang (cs : List Char) : Option (XLang × List Char) :=
  match cs with
  | _ :: ':' :: a :: b :: c :: ':' :: r => do
    let (root, r) ← pHex r
    match r with
    | ':' :: r => do
      let (pid, r) ← pHex r
      match r with
      | ':' :: r => do
        let (dtd, r) ← pHex r
        pure (⟨a == '1', b == '1', c == '1', root, pid, dtd⟩, r)
      | _ => none
    | _ => none
  | _ => none

/-- `T<row>:<name>=<value>` | `L<name>=<value>` | `N=<value>` -/
def pAttr (cs : List Char) : Option (XAttr × List Char) := do
  let (name, r) ← (match cs with
    | 'T' :: r =>
      match (pNat r).2 with
      | ':' :: r => (pHex r).map fun (n, r) => (some n, r)
      | _ => none
    | 'L' :: r => (pHex r).map fun (n, r) => (some n, r)
    | 'N' :: r => some (none, r)
    | _ => none)
  match r with
  | '=' :: r => (pHex r).map fun (v, r) => (⟨name, v⟩, r)
  | _ => none

partial def pAttrs (cs : List Char) : Option (List XAttr × List Char) := do
  let (a, r) ← pAttr cs
  match r with
  | '|' :: r => do
    let (as, r) ← pAttrs r
    pure (a :: as, r)
  | _ => pure ([a], r)

mutual
partial def pNode (cs : List Char) : Option (XSpec × List Char) :=
  match cs with
  | 'E' :: r => do
    -- tag: T<row> | L<hex> (the harness's business), then /<name>/<ns>/<bm>
    let r := (match r with
      | 'T' :: r => (pNat r).2
      | 'L' :: r => r.dropWhile isHexC
      | _ => r)
    match r with
    | '/' :: r => do
      let (name, r) ← pHex r
      match r with
      | '/' :: r => do
        let (ns, r) ← (match r with
          | '-' :: r => some (none, r)
          | _ => (pHex r).map fun (n, r) => (some n, r))
        match r with
        | '/' :: b :: m :: r => do
          let (attrs, r) ← (match r with
            | '~' :: r => pAttrs r
            | _ => some ([], r))
          match r with
          | '(' :: r => do
            let (kids, r) ← pNodes r
            match r with
            | ')' :: r => pure (.elt name ns (b == '1') (m == '1') attrs kids, r)
            | _ => none
          | _ => none
        | _ => none
      | _ => none
    | _ => none
  | 'T' :: r => (pHex r).map fun (b, r) => (.text b, r)
  | 'C' :: '(' :: r => do
    let (kids, r) ← pNodes r
    match r with
    | ')' :: r => pure (.cdata kids, r)
    | _ => none
  | 'Y' :: r => do
    let (l, r) ← pLang r
    match r with
    | '(' :: r => do
      let (root, r) ← pNode r
      match r with
      | ')' :: r => pure (.tree l root, r)
      | _ => none
    | _ => none
  | 'P' :: r => some (.other ENOTIMPL, r)
  | _ => none
partial def pNodes (cs : List Char) : Option (List XSpec × List Char) :=
  match cs with
  | ')' :: _ => some ([], cs)
  | _ => do
    let (n, r) ← pNode cs
    match r with
    | ',' :: r => do
      let (ns, r) ← pNodes r
      pure (n :: ns, r)
    | _ => pure ([n], r)
end

mutual
/-- The tree exists before the observed call: its text buffers are created without failures
    (`wbxml_buffer_create(text, len, len)`). -/
partial def mkXNode : XSpec → Prog XNode
  | .elt name ns b m attrs kids => do
    let ks ← mkXNodes kids
    pure (.elt name ns b m attrs ks)
  | .text t => do
    match ← bufCreate (some t) t.length with
    | some b => pure (.text b)
    | none => ub "setup allocation failed"
  | .cdata kids => do
    let ks ← mkXNodes kids
    pure (.cdata ks)
  | .tree l root => do
    let r ← mkXNode root
    pure (.tree l r)
  | .other c => pure (.other c)
partial def mkXNodes : List XSpec → Prog (List XNode)
  | [] => pure []
  | n :: rest => do
    let x ← mkXNode n
    let xs ← mkXNodes rest
    pure (x :: xs)
end

def doX (k1 k2 : Nat) (gen indent keepws : Nat) (lang tree : String) : String :=
  match pLang lang.toList, pNode tree.toList with
  | some (l, []), some (spec, []) =>
    let g : XGen := ⟨gen, if gen = 1 then indent else 1, keepws = 0, keepws = 0⟩
    match run (mkXNode spec) {} with
    | (.ok root, s1) =>
      let s1 := { s1 with sched := sched s1.next k1 k2, hits := 0 }
      match run (treeToXml g l root) s1 with
      | (.ok (ret, out), s) =>
        s!"R {ret} | {tail s1 s} fault=none | out={match out with | none => "N" | some (_, bs) => hexOrDash bs}"
      | (.error (.ub w), _) => s!"UB {w}"
      | (.error _, _) => "UB ?"
    | _ => "UB setup"
  | _, _ => "BADREQ"

/-! ### F: `wbxml_tree_from_xml` on the events Expat delivers (grammar at the head of `do_F` in harness/oom.c) -/

def pXName (s : String) : Option XName :=
  match s.toList with
  | ['T'] => some (.token 0)
  | ['T', '1'] => some (.token 1)        -- a tag with WBXML_TAG_OPTION_BINARY
  | 'L' :: r => (unhex (String.ofList r)).map .literal
  | _ => none

/-- `[X<rest hex>:](T|L<hex>)=<value hex>` -/
def pXAttrIn (s : String) : Option XAttrIn :=
  match s.splitOn "=" with
  | [n, v] => do
    let v ← unhex v
    match n.toList with
    | 'X' :: r =>
      match (String.ofList r).splitOn ":" with
      | [rest, nm] => do
        let rest ← unhex rest
        let nm ← pXName nm
        pure ⟨some rest, nm, v⟩
      | _ => none
    | _ => do
      let nm ← pXName n
      pure ⟨none, nm, v⟩
  | _ => none

def pXEvent (s : String) : Option XEvent :=
  match s.toList with
  | 'S' :: l :: r =>
    match (String.ofList r).splitOn "/" with
    | [t] => (pXName t).map (.start (l == '1') · [])
    | [t, as] => do
      let t ← pXName t
      let as ← (as.splitOn ";").mapM pXAttrIn
      pure (.start (l == '1') t as)
    | _ => none
  | 'E' :: _ => some .stop
  | ['A'] => some .startCdata
  | ['Z'] => some .endCdata
  | 'C' :: d :: _ :: r =>
    (unhex (String.ofList r)).map (.chars · (if d == '1' then .clear else if d == '2' then .vobject else .normal))
  | _ => none

def doF (k1 k2 : Nat) (parseOk : Bool) (events : String) : String :=
  match (if events == "-" then some [] else (events.splitOn ",").mapM pXEvent) with
  | none => "BADREQ"
  | some evs =>
    let s0 : Ledger := { sched := sched 0 k1 k2 }
    match run (treeFromXml (· == 1) evs parseOk) s0 with
    | (.ok (ret, c), s) =>
      s!"R {ret} | {tail s0 s} fault=none | tree={match c with | none => "N" | some c => ctxSig c}"
    | (.error (.ub w), _) => s!"UB {w}"
    | (.error _, _) => "UB ?"

def dispatch (line : String) : String :=
  match line.trimAscii.toString.splitOn " " with
  | "OOM" :: "U" :: k1 :: k2 :: ops => doU k1.toNat! k2.toNat! ops
  | ["OOM", "P", k1, k2, tag, attrs] => doP false k1.toNat! k2.toNat! tag attrs
  | ["OOM", "POLD", k1, k2, tag, attrs] => doP true k1.toNat! k2.toNat! tag attrs
  | ["OOM", "S", k1, k2, texts] => doS k1.toNat! k2.toNat! texts
  | ["OOM", "B", k1, k2, events] => doB k1.toNat! k2.toNat! events
  | ["OOM", "D", k1, k2, _lang, wb, hdr, strtbl, pubid, pre, root, body] =>
    doD k1.toNat! k2.toNat! wb hdr strtbl pubid pre root body
  | ["OOM", "F", k1, k2, _xml, pok, events] => doF k1.toNat! k2.toNat! (pok == "1") events
  | ["OOM", "X", k1, k2, gen, indent, keepws, lang, tree] => doX k1.toNat! k2.toNat! gen.toNat! indent.toNat! keepws.toNat! lang tree
  | ["OOM", "T", k1, k2, us, ver, pid, _tree, chunks] => doT false k1.toNat! k2.toNat! (us == "1") ver.toNat! pid.toNat! chunks
  | ["OOM", "TOLD", k1, k2, us, ver, pid, _tree, chunks] => doT true k1.toNat! k2.toNat! (us == "1") ver.toNat! pid.toNat! chunks
  | _ => "BADVERB"

end Driver.AllocDrv
