/- ENCX verb: XML generation of an arbitrary tree (wbxml_tree_to_xml). T2T: tree round trip through the (de)serialiser.
   W2T verb: tree built from WBXML bytes. -/
import Wbxml.Model.EncXml
import Driver.TreeIO
import Driver.Parse
namespace Driver
open Wbxml Wbxml.Model

def encxVerb (args : List String) : String :=
  match args with
  | [gen, indent, keep, tree] =>
    match readTree tree with
    | none => "BADTREE"
    | some t =>
      let cfg : W2XCfg := { main := Gen.main, gen := gen.toNat!, indent := UInt8.ofNat indent.toNat!, keepWs := keep != "0" }
      match treeToXml cfg (4 * tree.length + 8) t with
      | .ok xml => s!"R 0 ; {hx xml}"
      | .error e => s!"R {errCode e} ; "
  | _ => "BADARG"

def w2tVerb (args : List String) : String :=
  match args with
  | [lang, cs, doc] =>
    match (if doc == "-" then some [] else bytesOfHex doc) with
    | none => "BADARG"
    | some bs =>
      if bs.isEmpty then "R 44 ; " else
      match treeOfWbxml Gen.main (bs.length + 1) lang.toNat! cs.toNat! bs with
      | .ok t => s!"R 0 ; {fmtTree t}"
      | .error e => s!"R {errCode e} ; "
  | _ => "BADARG"

def t2tVerb (args : List String) : String :=
  match args with
  | [tree] => (match readTree tree with | some t => fmtTree t | none => "BADTREE")
  | _ => "BADARG"

end Driver
