/- W2X verb: the WBXML→XML conversion model. -/
import Wbxml.Model.EncXml
import Driver.Parse
namespace Driver
open Wbxml Wbxml.Model

def w2xVerb (args : List String) : String :=
  match args with
  | [lang, cs, gen, indent, keep, doc] =>
    match (if doc == "-" then some [] else bytesOfHex doc) with
    | none => "BADARG"
    | some bs =>
      let cfg : W2XCfg := { main := Gen.main, lang := lang.toNat!, charset := cs.toNat!, gen := gen.toNat!,
                            indent := UInt8.ofNat indent.toNat!, keepWs := keep != "0" }
      match wbxml2xml cfg bs with
      | .ok xml => s!"R 0 ; {hx xml}"
      | .error e => s!"R {errCode e} ; "
  | _ => "BADARG"

end Driver
