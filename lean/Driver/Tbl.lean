/- Line-protocol handlers for the table look-ups (TBL verbs). -/
import Wbxml.Model.Tables
import Wbxml.Gen.Tables
namespace Driver
open Wbxml Wbxml.Model

def langById (id : Nat) : Option Lang := Gen.main.find? (fun l => l.id == id)

def hexArg (s : String) : Option Bytes := if s == "-" then some [] else bytesOfHex s

def tbl (args : List String) : String :=
  match args with
  | ["TAGENC", lang, cur, name] =>
    match langById lang.toNat!, hexArg name with
    | some l, some n =>
      match l.tags with
      | some t =>
        let c := if cur == "-1" then none else some cur.toNat!
        match encTag t c n with
        | some r => s!"ROW {r.page} {r.token} {hexOfBytes r.name}"
        | none => "NONE"
      | none => "NONE"
    | _, _ => "BADARG"
  | ["ATTRENC", lang, name, value] =>
    match langById lang.toNat!, hexArg name, hexArg value with
    | some l, some n, some v =>
      match l.attrs with
      | some t =>
        match encAttr t n v with
        | some (r, k) => s!"ROW {r.page} {r.token} {k}"
        | none => "NONE"
      | none => "NONE"
    | _, _, _ => "BADARG"
  | ["EXTENC", lang, name] =>
    match langById lang.toNat!, hexArg name with
    | some l, some n =>
      match l.exts with
      | some t => (match encExt t n with | some r => s!"ROW {r.token}" | none => "NONE")
      | none => "NONE"
    | _, _ => "BADARG"
  | ["NSPAGE", lang, name] =>
    match langById lang.toNat!, hexArg name with
    | some l, some n => (match l.ns with | some t => s!"PAGE {pageOfNs t n}" | none => "PAGE 0")
    | _, _ => "BADARG"
  | ["PAGENS", lang, page] =>
    match langById lang.toNat! with
    | some l => (match l.ns with
      | some t => (match nsOfPage t page.toNat! with | some n => s!"NS {hexOfBytes n}" | none => "NONE")
      | none => "NONE")
    | none => "BADARG"
  | _ => "BADVERB"

end Driver
