/-
  SPECX verb: the Lean specification of well-formed XML (`Spec/Xml.lean`) as a second, independent
  reader of generated XML, next to Expat.

      SPECX <hex>   →  X 1 <events>      the octets are a well-formed document of the subset
                    →  X 0               they are not

  `<events>` has the format `harness/expat_rec.c` prints for `EXPATN` (read by `tools/xmlcmp.py`
  `expat_events`):  D:<ver>:~  Y:<sysid|~>:<pubid|~>  S:0:<name>{;<an>=<av>}  E:0:<name>  C:<hex>
  — byte offsets are not computed (0) and a run of character data is ONE `C` event (Expat delivers it
  in pieces and brackets CDATA sections with `[` `]`; the check compares after merging).
-/
import Wbxml.Spec.Xml
import Wbxml.Lemmas.XmlSpecDoc
import Wbxml.Gen.Tables
import Driver.Parse
namespace Driver
open Wbxml Wbxml.Spec.Xml Wbxml.Model

mutual
def xEvents : XItem → List String
  | .text s => [s!"C:{hx s}"]
  | .elem n attrs kids =>
    let a := String.join (attrs.map fun (k, v) => s!";{hx k}={hx v}")
    [s!"S:0:{hx n}{a}"] ++ xEventsL kids ++ [s!"E:0:{hx n}"]
def xEventsL : List XItem → List String
  | [] => []
  | x :: r => xEvents x ++ xEventsL r
end

def optHx : Option Bytes → String
  | some b => hx b
  | none => "~"

def xDocEvents (d : XDoc) : List String :=
  (match d.version with | some v => [s!"D:{hx v}:~"] | none => []) ++
  (match d.doctype with | some t => [s!"Y:{optHx t.sysid}:{optHx t.pubid}"] | none => []) ++
  xEvents d.root

def specxVerb (args : List String) : String :=
  match args with
  | [doc] =>
    match (if doc == "-" then some [] else bytesOfHex doc) with
    | none => "BADARG"
    | some bs =>
      match read bs with
      | some d => "X 1 " ++ ",".intercalate (xDocEvents d)
      | none => "X 0"
  | _ => "BADARG"

/-- XVIEW verb: the statement of `Props.C05.output_denotes_tree_partial` evaluated on one document.

      XVIEW <lang> <charset> <gen> <indent> <keep> <hex>
        →  V 1 <events>     the tree the model builds is `xmlRepresentable`; `<events>` is what the theorem
                            says a reader gets: D:<1.0>:~ Y:<sysid>:<pubid> and the events of `xview cfg t`
                            (indented generation, `indent_output_denotes_tree_partial`: up to blanks in character data)
        →  V 0              the tree is not representable (or the conversion fails): the theorem says nothing -/
def xviewVerb (args : List String) : String :=
  match args with
  | [lang, cs, gen, indent, keep, doc] =>
    match (if doc == "-" then some [] else bytesOfHex doc) with
    | none => "BADARG"
    | some bs =>
      let cfg : W2XCfg := { main := Gen.main, lang := lang.toNat!, charset := cs.toNat!, gen := gen.toNat!,
                            indent := UInt8.ofNat indent.toNat!, keepWs := keep != "0" }
      match treeOfWbxml cfg.main (bs.length + 1) cfg.lang cfg.charset bs with
      | .error _ => "V 0"
      | .ok t =>
        match t.lang with
        | none => "V 0"
        | some l =>
          if Wbxml.Lemmas.XmlSpec.xmlRepresentable cfg t then
            let d : XDoc := { version := some b!"1.0", doctype := some (Wbxml.Lemmas.XmlSpec.xdoctype l),
                              root := Wbxml.Lemmas.XmlSpec.xview cfg t }
            "V 1 " ++ ",".intercalate (xDocEvents d)
          else "V 0"
  | _ => "BADARG"

end Driver
