/- TREE verb: replay of a tree-API history on the heap model (same grammar as harness/treeops.c). -/
import Wbxml.Model.TreeHeap
import Wbxml.Model.EncXml
import Driver.TreeIO
import Driver.Parse
namespace Driver.TreeOps
open Wbxml Wbxml.Model Wbxml.Model.TreeHeap Driver

/-- Executable check of the pointer invariant on the model heap, written like the harness's
    walk over the real links (an independent formulation of `Inv`): returns the failure, the nodes
    reached and the number of adjacent text pairs. -/
structure Walk where
  bad : Option String := none
  seen : List Nat := []
  adj : Nat := 0

partial def walkNode (s : St) (w : Walk) (n : Nat) : Walk :=
  if w.bad.isSome then w else
  if w.seen.contains n then { w with bad := some "reached-twice" } else
  match s.cellAt n with
  | none => { w with bad := some "child-freed" }
  | some c =>
    let w := { w with seen := w.seen ++ [n] }
    if !c.pay.isBranch && c.first.isSome then { w with bad := some "leaf-with-children" } else
    walkKids s w n none c.first
where
  walkKids (s : St) (w : Walk) (parent : Nat) (pv : Option Nat) : Option Nat → Walk
    | none => w
    | some k =>
      if w.bad.isSome then w else
      match s.cellAt k with
      | none => { w with bad := some "child-freed" }
      | some kc =>
        if kc.parent != some parent then { w with bad := some "child-parent" }
        else if kc.prev != pv then { w with bad := some "child-prev" }
        else
          let isAdj := match pv with
            | some q => (match s.cellAt q with
              | some qc => qc.pay.isText && kc.pay.isText
              | none => false)
            | none => false
          let w := if isAdj then { w with adj := w.adj + 1 } else w
          let w := walkNode s w k
          if w.bad.isSome then w else
          if w.seen.length > 100000 then { w with bad := some "too-deep-or-cyclic" } else
          walkKids s w parent (some k) kc.next

/-- Handles that are live, parent-less and not the root, in op order, without repetitions. -/
def detachedHandles (s : St) (hs : List (Option Nat)) : List (Nat × Nat) :=
  let rec go (k : Nat) (acc : List (Nat × Nat)) : List (Option Nat) → List (Nat × Nat)
    | [] => acc
    | none :: r => go (k + 1) acc r
    | some a :: r =>
      match s.cellAt a with
      | some c =>
        if c.parent.isNone && s.root != some a && !(acc.any (fun p => p.2 == a)) then go (k + 1) (acc ++ [(k, a)]) r
        else go (k + 1) acc r
      | none => go (k + 1) acc r
  go 0 [] hs

def checkLinks (s : St) (hs : List (Option Nat)) : Walk :=
  let w : Walk := {}
  let w := match s.root with
    | some r =>
      (match s.cellAt r with
       | none => { w with bad := some "root-freed" }
       | some c => if c.parent.isSome || c.prev.isSome || c.next.isSome then { w with bad := some "root-links" }
                   else walkNode s w r)
    | none => w
  let w := (detachedHandles s hs).foldl (fun w (_, a) =>
    if w.bad.isSome then w else
    match s.cellAt a with
    | some c => if c.prev.isSome || c.next.isSome then { w with bad := some "detached-links" } else walkNode s w a
    | none => w) w
  if w.bad.isSome then w else
  if hs.any (fun h => match h with
      | some a => (s.cellAt a).isSome && !w.seen.contains a
      | none => false) then { w with bad := some "unreachable" } else w

def fmtAbsNode (s : St) (a : Nat) : String :=
  match absNode s s.fuel a with
  | .ok n => fmtNode n
  | .error e => "!" ++ errCode e

def fmtAbsTree (s : St) : String :=
  match absTree s with
  | .ok t => fmtTree t
  | .error e => "!" ++ errCode e

def dumpState (s : St) (hs : List (Option Nat)) (ret : String) : String :=
  let w := checkLinks s hs
  match w.bad with
  | some b => s!"{ret}|BAD:{b}|{w.adj}|?|?"
  | none =>
    let det := (detachedHandles s hs).map fun (k, a) => s!"d{k}={fmtAbsNode s a}"
    s!"{ret}|ok|{w.adj}|{fmtAbsTree s}|" ++ (if det.isEmpty then "-" else "&".intercalate det)

/-- A handle argument: `none` = unusable (refers to an op that returned no node). -/
def getRef (hs : List (Option Nat)) (a : String) : Option (Option Nat) :=
  if a == "-" then some none
  else match a.toNat? with
    | some k => (match hs[k]? with
      | some (some addr) => some (some addr)
      | _ => none)
    | none => none

def parseAttr (lang : Option Lang) (spec : String) : Option Attr :=
  match spec.splitOn "=" with
  | [an, hv] => do
    let n ← parseAName lang an
    let v ← unhx hv
    pure { name := n, value := v }
  | _ => none

def parseAttrs (lang : Option Lang) (f : String) : Option (List Attr) :=
  if f == "-" then some [] else (f.splitOn "+").mapM (parseAttr lang)

def parseXAttrs (f : String) : Option (List (Bytes × Bytes)) :=
  if f == "-" then some [] else
  (f.splitOn "+").mapM fun p =>
    match p.splitOn "=" with
    | [n, v] => do
      let n ← unhx n
      let v ← unhx v
      pure (n, v)
    | _ => none

/-- Decode one op; `none` = malformed (BADOP), `some none` = a handle argument is unusable (SKIP). -/
def parseOp (s : St) (hs : List (Option Nat)) (op : String) : Option (Option Op) :=
  match op.splitOn "," with
  | ["ae", p, nm] =>
    (match parseTName s.lang nm with
     | none => none
     | some n => some ((getRef hs p).map fun p => .addElt p n))
  | ["aa", p, nm, att] =>
    (match parseTName s.lang nm, parseAttrs s.lang att with
     | some n, some a => some ((getRef hs p).map fun p => .addEltAttrs p n a)
     | _, _ => none)
  | ["ax", p, nm] =>
    (match unhx nm with
     | some n => some ((getRef hs p).map fun p => .addXmlElt p n)
     | none => none)
  | ["ay", p, nm, att] =>
    (match unhx nm, parseXAttrs att with
     | some n, some a => some ((getRef hs p).map fun p => .addXmlEltAttrs p n a)
     | _, _ => none)
  | ["az", p, nm, att, tx] =>
    (match unhx nm, parseXAttrs att, unhx tx with
     | some n, some a, some t => some ((getRef hs p).map fun p => .addXmlEltAttrsText p n a t)
     | _, _, _ => none)
  | ["at", p, tx] =>
    (match unhx tx with
     | some t => some ((getRef hs p).map fun p => .addText p t)
     | none => none)
  | ["ac", p] => some ((getRef hs p).map fun p => .addCdata p)
  | ["ar", p, tr] =>
    (match readTree tr with
     | some t => some ((getRef hs p).map fun p => .addTree p t)
     | none => none)
  | ["an", p, n] =>
    some (match getRef hs p, getRef hs n with
      | some p, some (some n) => some (.addNode p n)
      | _, _ => none)
  | ["ex", n] =>
    some (match getRef hs n with
      | some (some n) => some (.extract n)
      | _ => none)
  | ["de", n] =>
    some (match getRef hs n with
      | some (some n) => some (.destroy n)
      | _ => none)
  | _ => none

def fmtRet : Ret → String
  | .node (some _) => "N"
  | .node none => "0"
  | .bool true => "T"
  | .bool false => "F"
  | .code c => s!"R{c}"
  | .unit => "V"
  | .skipped => "SKIP"

structure Run where
  s : St
  hs : List (Option Nat) := []
  out : List String := []
  stop : Bool := false

def runOp (r : Run) (op : String) : Run :=
  if r.stop then r else
  match parseOp r.s r.hs op with
  | none => { r with hs := r.hs ++ [none], out := r.out ++ [dumpState r.s (r.hs ++ [none]) "BADOP"] }
  | some none => { r with hs := r.hs ++ [none], out := r.out ++ [dumpState r.s (r.hs ++ [none]) "SKIP"] }
  | some (some o) =>
    match stepChecked r.s o with
    | .error e => { r with stop := true, out := r.out ++ [s!"{errCode e}|BAD:model-fault|0|?|?"] }
    | .ok (ret, s') =>
      let h := match ret with
        | .node a => a
        | _ => none
      let hs := r.hs ++ [h]
      let seg := dumpState s' hs (fmtRet ret)
      { s := s', hs := hs, out := r.out ++ [seg], stop := seg.contains "BAD:" }

/-- Teardown as the harness does it: every detached sub-tree, then the tree; answers the number of
    cells still live afterwards (or the fault). -/
def teardown (s : St) (hs : List (Option Nat)) : String :=
  let rec go (s : St) : Nat → Except Err St
    | 0 => .ok s
    | f + 1 =>
      match detachedHandles s hs with
      | [] => .ok s
      | (_, a) :: _ =>
        match destroyAll s a with
        | .error e => .error e
        | .ok s' => go s' f
  match go s (hs.length + 1) with
  | .error e => "teardown=" ++ errCode e
  | .ok s =>
    match destroyTree s with
    | .error e => "teardown=" ++ errCode e
    | .ok s => s!"live={(s.heap.filter (·.live)).length}"

def treeVerb (line : String) (args : List String) : String :=
  match args with
  | lang :: cs :: ops =>
    let s0 := create Gen.main lang.toNat! cs.toNat!
    let r := ops.foldl runOp { s := s0 }
    let body := " / ".intercalate r.out
    if r.stop then body ++ " // X - ## -" else
    let rootIsElt := match r.s.root with
      | some a => (match r.s.cellAt a with
        | some c => (match c.pay with | .elt _ _ => true | _ => false)
        | none => false)
      | none => false
    if !rootIsElt || r.s.lang.isNone then body ++ " // X - ## " ++ teardown r.s r.hs else
    let x := match absTree r.s with
      | .error e => "!" ++ errCode e
      | .ok t =>
        let cfg : W2XCfg := { main := Gen.main, gen := 1, indent := 0, keepWs := false }
        (match treeToXml cfg (4 * line.length + 64) t with
         | .ok xml => s!"0 {hx xml}"
         | .error e => s!"{errCode e} -")
    body ++ " // X " ++ x ++ " ## " ++ teardown r.s r.hs
  | _ => "BADARG"

def dispatch (line : String) : String :=
  let l := line.trimAscii.toString
  match l.splitOn " " with
  | "TREE" :: args => treeVerb l args
  | "TREEP" :: args => treeVerb l args
  | _ => "BADVERB"

end Driver.TreeOps
