/- Line-protocol handlers for the command-line tool model (TOOL verbs, DESIGN_NOTES/C20.md). -/
import Wbxml.Model.ToolMain
namespace Driver.Tool
open Wbxml Wbxml.Model.Tool

def hexArg (s : String) : Option Bytes := if s == "-" then some [] else bytesOfHex s
def hexOut (b : Bytes) : String := if b.isEmpty then "-" else hexOfBytes b

def listArg (s : String) : Option (List Bytes) :=
  if s == "_" then some [] else (s.splitOn ",").mapM hexArg

def listOut (l : List Bytes) : String :=
  if l.isEmpty then "_" else ",".intercalate (l.map hexOut)

def kv (toks : List String) (key : String) : Option String :=
  toks.findSome? fun t => if t.startsWith (key ++ "=") then some ((t.drop (key.length + 1)).toString) else none

def parseR (s : String) : Option ROpen :=
  if s == "X" then some .fail
  else if s == "D" then some .dir
  else if s.startsWith "F" then (hexArg ((s.drop 1).toString)).map ROpen.file
  else none

def parseSink (s : String) : Option Sink :=
  if s == "K" then some .ok
  else if s.startsWith "U" then some (.full ((s.drop 1).toString.toNat!))
  else none

def parseW (s : String) : Option WOpen :=
  if s == "X" then some .fail else (parseSink s).map WOpen.ok

def parseFs (s : String) : Option (List (Bytes × ROpen × WOpen)) :=
  if s == "-" then some []
  else (s.splitOn ";").mapM fun e =>
    match e.splitOn "/" with
    | [p, r, w] => do
      let p ← hexArg p
      let r ← parseR r
      let w ← parseW w
      pure (p, r, w)
    | _ => none

def parseLib (s : String) : Option (Except Nat Bytes × Bytes) :=
  match s.splitOn ":" with
  | ["NONE"] => some (.error 0, [])
  | ["OK", h] => (hexArg h).map fun b => (.ok b, [])
  | ["ERR", c, m] => (hexArg m).map fun b => (.error c.toNat!, b)
  | _ => none

def sigOf : Params → String
  | .w2x c => s!"w2x.{c.gen}.{c.lang}.{c.charset}.{c.indent}.{if c.keepWs then 1 else 0}"
  | .x2w c => s!"x2w.{c.version}.{if c.keepWs then 1 else 0}.{if c.useStrtbl then 1 else 0}.{if c.anonymous then 1 else 0}"

def evOut (e : Ev) : String :=
  s!"{e.opt.toNat}:{match e.arg with | some a => "S" ++ hexOut a | none => "N"}:{if e.err.isEmpty then "_" else "+".intercalate (e.err.map hexOut)}"

def scanOut (r : ScanRes) : String :=
  s!"OK optind={r.optind} argv={listOut r.argv} evs={if r.evs.isEmpty then "_" else ";".intercalate (r.evs.map evOut)}"

def errOut : Err → String
  | .ub w => "UB " ++ w.replace " " "_"
  | .fuel => "FUEL"
  | .code c => s!"ERR {c}"
  | .crash w => "CRASH " ++ w.replace " " "_"

def parseTool (s : String) : Option Tool := if s == "w2x" then some .w2x else if s == "x2w" then some .x2w else none
def parseGetopt (s : String) : Option Getopt := if s == "att" then some .att else if s == "gnu" then some .gnu else none

def resultOut : Result → String
  | .crash w => "CRASH " ++ w.replace " " "_"
  | .done o =>
    let files := if o.files.isEmpty then "-" else
      ";".intercalate (o.files.map fun f => s!"{hexOut f.path}/{hexOut f.content}/{if f.complete then 1 else 0}")
    let call := match o.call with
      | some (p, i) => s!"{sigOf p}/{hexOut i}"
      | none => "-"
    s!"DONE exit={o.exit} stdout={hexOut o.stdout} stderr={listOut (o.stderr.map Line.render)} files={files} call={call}"

def handle (args : List String) : String :=
  match args with
  | ["ATOI", h] =>
    match hexArg h with
    | some b => s!"OK {atoiC b} {indentOf b} {genOf b}"
    | none => "BADARG"
  | ["NAME", k, h] =>
    match hexArg h with
    | some b =>
      if k == "LANG" then s!"OK {getLang b}"
      else if k == "CHARSET" then s!"OK {getCharset b}"
      else if k == "VERSION" then s!"OK {getVersion b}"
      else "BADARG"
    | none => "BADARG"
  | ["GETOPT", g, opts, argv] =>
    match parseGetopt g, hexArg opts, listArg argv with
    | some g, some opts, some argv =>
      match scan g opts argv with
      | .ok r => scanOut r
      | .error e => errOut e
    | _, _, _ => "BADARG"
  | "RUN" :: t :: g :: argv :: rest =>
    match parseTool t, parseGetopt g, listArg argv,
          (kv rest "stdin").bind parseR, (kv rest "stdout").bind parseSink,
          (kv rest "lib").bind parseLib, (kv rest "fs").bind parseFs, kv rest "sched" with
    | some t, some g, some argv, some sin, some sout, some (lv, msg), some fs, some sched =>
      let sched := if sched == "-" then [] else (sched.splitOn ",").map String.toNat!
      let w : World := {
        stdin := sin
        stdout := sout
        sched := sched
        openR := fun p => match fs.find? (fun e => e.1 == p) with | some e => e.2.1 | none => .fail
        openW := fun p => match fs.find? (fun e => e.1 == p) with | some e => e.2.2 | none => .fail }
      let lib : Lib := { conv := fun _ _ => lv, errStr := fun _ => msg }
      resultOut (tool t g lib w argv)
    | _, _, _, _, _, _, _, _ => "BADARG"
  | _ => "BADVERB"

end Driver.Tool
