/- Line-protocol driver for the Flow component (C17): thin loop around `Driver.flowVerb`. -/
import Driver.Flow
open Driver

def dispatchFlow (line : String) : String :=
  let toks := (line.trimAscii.toString.splitOn " ").filter (· ≠ "")
  match toks with
  | [] => ""
  | "FLOW" :: rest => flowVerb rest
  | _ => "BADVERB"

partial def loop (h : IO.FS.Stream) (out : IO.FS.Stream) : IO Unit := do
  let line ← h.getLine
  if line.isEmpty then return ()
  out.putStrLn (dispatchFlow line)
  loop h out

def main : IO Unit := do
  let out ← IO.getStdout
  loop (← IO.getStdin) out
  out.flush
