import Wbxml.Prim.Basic
import Wbxml.Prim.Audit
import Wbxml.Gen.Tables
import Wbxml.Gen.Consts
