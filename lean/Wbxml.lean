-- Root of the `Wbxml` library: everything `lake build` (MANIFEST.setup_cmd) must compile.
import Wbxml.Prim.Basic
import Wbxml.Prim.Audit
import Wbxml.Gen.Tables
import Wbxml.Gen.Consts
import Wbxml.Gen.Globals
import Wbxml.Gen.Fields
import Wbxml.Model.EncXml
import Wbxml.Model.TreeOfXml
import Wbxml.Props.C04
import Wbxml.Props.C08
import Wbxml.Props.C11
import Wbxml.Props.C12
import Wbxml.Props.C14
import Wbxml.Props.C15
import Wbxml.Props.C19
import Wbxml.Props.C20
